import Driver.Util
import Gen.Kernels
import VecModel.Model.BPE
import VecModel.Model.Distances
import VecModel.Model.Ngram
import VecModel.Model.Window
import VecModel.Model.Coo
import VecModel.Model.EM
import VecModel.Model.LZ
import VecModel.Model.Skipgram
open Lean VecModel
namespace Driver.Twin

/-- JSON → interpreter value: ints, strings, bools, null, arrays (lists), {"t":[..]} tuples,
{"q":"n/d"} rationals, {"rec":[[field, v]...]} records, {"d":[[k,v]...]} dicts -/
partial def toVal (j : Json) : R Py.Val :=
  match j with
  | .null => pure .none
  | .bool b => pure (.bool b)
  | .str s => pure (.str s)
  | .num n => if n.exponent = 0 then pure (.int n.mantissa) else throw "send non-integers as {\"q\": \"n/d\"}"
  | .arr a => do pure (.list (← a.toList.mapM toVal))
  | .obj _ => do
    match j.getObjVal? "t" with
    | .ok (.arr a) => pure (.tuple (← a.toList.mapM toVal))
    | _ =>
    match j.getObjVal? "q" with
    | .ok q => pure (.rat (← jsonRat q))
    | _ =>
    match j.getObjVal? "rec" with
    | .ok (.arr a) => do
      let fs ← a.toList.mapM fun kv => match kv with
        | .arr #[.str k, v] => do pure (k, ← toVal v)
        | _ => throw "rec: [field, value]"
      pure (.record fs)
    | _ =>
    match j.getObjVal? "d" with
    | .ok (.arr a) => do
      let kv ← a.toList.mapM fun kv => match kv with
        | .arr #[k, v] => do pure (← toVal k, ← toVal v)
        | _ => throw "d: [key, value]"
      pure (.dict kv)
    | _ => throw "unsupported value object"

partial def ofVal : Py.Val → Json
  | .int i => toJson i
  | .rat q => if q.den == 1 then toJson q.num else Json.mkObj [("q", ratJson q)]
  | .bool b => toJson b
  | .none => Json.null
  | .str s => Json.str s
  | .tuple vs => Json.mkObj [("t", Json.arr (vs.map ofVal).toArray)]
  | .list vs => Json.arr (vs.map ofVal).toArray
  | .dict kv => Json.mkObj [("d", Json.arr (kv.map fun p => Json.arr #[ofVal p.1, ofVal p.2]).toArray)]
  | .record fs => Json.mkObj [("rec", Json.arr (fs.map fun p => Json.arr #[Json.str p.1, ofVal p.2]).toArray)]

def withGlobals (j : Json) : R Py.Prog := do
  match j.getObjVal? "globals" with
  | .ok (.arr a) => do
    let gs ← a.toList.mapM fun kv => match kv with
      | .arr #[.str k, v] => do pure (k, ← toVal v)
      | _ => throw "globals: [name, value]"
    pure { Gen.prog with globals := gs ++ Gen.prog.globals }
  | _ => pure Gen.prog

/-- all lists over `alpha` of length ≤ n -/
def allLists (alpha : List Int) : Nat → List (List Int)
  | 0 => [[]]
  | n + 1 => let shorter := allLists alpha n
    shorter ++ (shorter.filter (·.length == n)).flatMap fun l => alpha.map fun a => a :: l

/-- all lists of values from `alpha` of length ≤ n -/
def allValLists (alpha : List Py.Val) : Nat → List (List Py.Val)
  | 0 => [[]]
  | n + 1 => let shorter := allValLists alpha n
    shorter ++ (shorter.filter (·.length == n)).flatMap fun l => alpha.map fun a => a :: l

/-- argument generator: {"lists": [alphabet...], "maxlen": n} | {"choices": [v...]} | {"const": v}
| {"sorted_unique_lists": [alphabet...], "maxlen": n} -/
def genArg (j : Json) : R (List Py.Val) := do
  match j.getObjVal? "const" with
  | .ok v => pure [← toVal v]
  | _ =>
  match j.getObjVal? "choices" with
  | .ok (.arr a) => a.toList.mapM toVal
  | _ =>
  match j.getObjVal? "lists", j.getObjValAs? Nat "maxlen" with
  | .ok (.arr a), .ok n => do
    let alpha ← a.toList.mapM toVal
    pure ((allValLists alpha n).map Py.Val.list)
  | _, _ =>
  match j.getObjVal? "sorted_unique_lists", j.getObjValAs? Nat "maxlen" with
  | .ok (.arr a), .ok n => do
    let alpha ← a.toList.mapM toVal
    -- sublists of the (increasing) alphabet, up to length n
    let subs := alpha.foldr (fun x acc => acc ++ acc.map (x :: ·)) [[]]
    pure ((subs.filter (·.length ≤ n)).map Py.Val.list)
  | _, _ => throw "bad argument generator"

def cartesian : List (List Py.Val) → List (List Py.Val)
  | [] => [[]]
  | xs :: rest => let tails := cartesian rest
    xs.flatMap fun x => tails.map fun t => x :: t

/-! ## helpers of the model-vs-twin ops added for C04 / C11 / C16 / C09 / C06

A twin whose kernel is missing from `Gen.available` (syntax outside the translator's subset) or that runs into
an idiom the interpreter does not model (`Err.isUnsupported`) makes the op answer `{"bad": "twin unavailable …"}`,
which the harness records and does not count as a disagreement. -/

def needFns (fns : List String) : R Unit :=
  fns.forM fun f =>
    if Gen.available.contains f then pure ()
    else match Gen.unavailable.find? (·.1 == f) with
      | some (_, why) => throw s!"twin unavailable: {f}: {why}"
      | none => throw s!"twin unavailable: {f}: not translated"

def guardUnsupported (fn : String) : Except Err α → R Unit
  | .error e => if e.isUnsupported then throw s!"twin unavailable: {fn}: {e}" else pure ()
  | .ok _ => pure ()

def isMemErr : Err → Bool
  | .oob .. | .unbound _ => true
  | _ => false

def valInt? : Py.Val → Option Int
  | .int i => some i
  | .bool b => some (if b then 1 else 0)
  | .rat q => if q.den == 1 then some q.num else none
  | _ => none

def valRat? : Py.Val → Option Rat
  | .int i => some i
  | .bool b => some (if b then 1 else 0)
  | .rat q => some q
  | _ => none

def twinResJson : Except Err (Py.Val × Py.Env) → Json
  | .ok (v, _) => ofVal v
  | .error e => Json.str (toString e)

structure Acc where
  checked : Nat := 0
  bothFail : Nat := 0
  memErr : Nat := 0
  grew : Nat := 0            -- coo: compared states whose buffer has been re-allocated
  deep : Nat := 0            -- coo: compared states with depth ≥ 2 (multi-level merge reached)
  bad : List Json := []
  memSamples : List Json := []

def Acc.addBad (a : Acc) (j : Json) : Acc := if a.bad.length < 4 then { a with bad := a.bad ++ [j] } else { a with bad := a.bad ++ [Json.null] |>.take 5 }

def Acc.json (a : Acc) : Json :=
  Json.mkObj [("checked", toJson a.checked), ("both_fail", toJson a.bothFail),
    ("disagreements", Json.arr (a.bad.filter (· != Json.null)).toArray)]

/-! ### coo_append family vs `VecModel.Coo` (C04, C10) -/
namespace CooTwin
open VecModel.Coo

/-- the CooArray record as the `numba_build_*_skip_grams` kernels allocate it (arrays of zeros of length `cap`,
`ind = [0]`, `min` of `2*ceil(log2 cap)` zeros, `depth = [0]`), fields in the order of the regenerated namedtuple -/
def record (cap : Nat) : R Py.Val := do
  match Gen.prog.records.find? (·.1 == "CooArray") with
  | none => throw "twin unavailable: CooArray namedtuple not found in coo_utils.py"
  | some (_, fields) =>
    let z := Py.Val.list (List.replicate cap (.int 0))
    let fs ← fields.mapM fun f =>
      if f == "row" || f == "col" || f == "val" || f == "key" then pure (f, z)
      else if f == "ind" || f == "depth" then pure (f, Py.Val.list [.int 0])
      else if f == "min" then pure (f, Py.Val.list (List.replicate (2 * clog2 cap) (.int 0)))
      else throw s!"twin unavailable: unexpected CooArray field {f}"
    pure (.record fs)

structure View where
  row : List Int
  col : List Int
  val : List Int
  key : List Int
  mins : List Int
  ind : Int
  depth : Int

def fieldInts (fs : List (String × Py.Val)) (f : String) : Option (List Int) :=
  match fs.find? (·.1 == f) with
  | some (_, .list vs) => vs.mapM valInt?
  | _ => none

def view : Py.Val → Option View
  | .record fs => do
    let row ← fieldInts fs "row"
    let col ← fieldInts fs "col"
    let val ← fieldInts fs "val"
    let key ← fieldInts fs "key"
    let mins ← fieldInts fs "min"
    let ind ← match ← fieldInts fs "ind" with | [i] => some i | _ => none
    let depth ← match ← fieldInts fs "depth" with | [i] => some i | _ => none
    pure { row, col, val, key, mins, ind, depth }
  | _ => none

def View.entries (v : View) : List Entry :=
  (v.row.zip (v.col.zip (v.val.zip v.key))).map fun (r, c, x, k) => ⟨r, c, x, k⟩

def View.json (v : View) : Json :=
  Json.mkObj [("row", ints v.row), ("col", ints v.col), ("val", ints v.val), ("key", ints v.key),
    ("min", ints v.mins), ("ind", toJson v.ind), ("depth", toJson v.depth)]

def modelJson (c : Coo) : Json :=
  let b := c.buf.toList
  Json.mkObj [("row", ints (b.map (·.row))), ("col", ints (b.map (·.col))), ("val", ints (b.map (·.val))),
    ("key", ints (b.map (·.key))), ("min", ints c.mins.toList), ("ind", toJson c.ind), ("depth", toJson c.depth)]

def keyVals (l : List Entry) : List (Int × Int) := (canon l).map fun e => (e.key, e.val)

/-- what the two states disagree on, if anything: live entries as summed (key, value) lists, `ind`, then the raw
arrays (row/col/val/key over the whole capacity, `min`, `depth`) -/
def differ (c : Coo) (t : Py.Val) : Option String :=
  match view t with
  | none => some "twin state is not a CooArray of integer arrays"
  | some v =>
    if v.ind < 0 ∨ v.ind.toNat > v.key.length then some "twin: ind outside the buffer"
    else if keyVals (live c) ≠ keyVals (v.entries.take v.ind.toNat) then some "live (key, summed value) entries differ"
    else if (c.ind : Int) ≠ v.ind then some "ind differs"
    else if c.buf.toList ≠ v.entries ∨ v.row.length ≠ c.buf.size ∨ v.col.length ≠ c.buf.size ∨ v.val.length ≠ c.buf.size then
      some "raw row/col/val/key arrays differ"
    else if c.mins.toList ≠ v.mins then some "min array differs"
    else if (c.depth : Int) ≠ v.depth then some "depth differs"
    else none

def entryOf (k : Nat) : Entry := ⟨(k : Int), 2 * (k : Int) + 1, (k : Int) + 1, (k : Int)⟩

def twinAppend (P : Py.Prog) (t : Py.Val) (e : Entry) : Except Err Py.Val :=
  match Py.callFn P "coo_append" [t, .tuple [.int e.row, .int e.col, .int e.val, .int e.key]] with
  | .ok (r, _) => .ok r                    -- coo_append RETURNS the (possibly re-allocated) buffer
  | .error e => .error e

/-- a kernel that works in place on its first parameter: the state afterwards is that parameter's final value -/
def twinInPlace (P : Py.Prog) (fn : String) (t : Py.Val) : Except Err Py.Val :=
  match Py.callFn P fn [t] with
  | .ok (_, env) =>
    match (P.fns.find? (·.name == fn)).bind (·.params.head?) with
    | some p => match env.find? (·.1 == p) with
      | some (_, v) => .ok v
      | none => .error (Py.unsupported s!"{fn}: parameter {p} not bound at exit")
    | none => .error (Py.unsupported s!"{fn}: no parameter")
  | .error e => .error e

/-- the tail of every kernel: `coo_sum_duplicates(coo); merge_all_sum_duplicates(coo)` -/
def twinFinalize (P : Py.Prog) (t : Py.Val) : Except Err Py.Val := do
  twinInPlace P "merge_all_sum_duplicates" (← twinInPlace P "coo_sum_duplicates" t)

/-- compare one step's outcomes; returns the new accumulator and, when both sides succeeded and agree, the states
to continue from.  `cmp = false`: memory-safety scope only (twin errors are counted, states are not compared). -/
def judge (cmp : Bool) (cap0 : Nat) (acc : Acc) (ctx : List (String × Json)) (m : Except Err Coo) (t : Except Err Py.Val) :
    R (Acc × Option (Coo × Py.Val)) := do
  guardUnsupported "coo_append family" t
  let acc := { acc with checked := acc.checked + 1 }
  let acc := match t with
    | .error e => if isMemErr e then
        { acc with memErr := acc.memErr + 1,
                   memSamples := if acc.memSamples.length < 3 then acc.memSamples ++ [Json.mkObj (ctx ++ [("err", Json.str (toString e))])] else acc.memSamples }
      else acc
    | _ => acc
  match m, t with
  | .ok c, .ok v =>
    let acc := { acc with grew := acc.grew + (if c.buf.size != cap0 then 1 else 0), deep := acc.deep + (if c.depth ≥ 2 then 1 else 0) }
    if !cmp then pure (acc, some (c, v)) else
    match differ c v with
    | none => pure (acc, some (c, v))
    | some w => pure (acc.addBad (Json.mkObj (ctx ++ [("what", Json.str w), ("model", modelJson c),
        ("twin", match view v with | some vw => vw.json | none => ofVal v)])), none)
  | .error _, .error _ => pure ({ acc with bothFail := acc.bothFail + 1 }, none)
  | .ok c, .error e =>
    pure (if cmp then acc.addBad (Json.mkObj (ctx ++ [("what", Json.str "twin raises, model does not"), ("model", modelJson c), ("twin", Json.str (toString e))])) else acc, none)
  | .error e, .ok v =>
    pure (if cmp then acc.addBad (Json.mkObj (ctx ++ [("what", Json.str "model fails, twin does not"), ("model", Json.str (toString e)),
      ("twin", match view v with | some vw => vw.json | none => ofVal v)])) else acc, none)

/-- every append sequence over keys `0..nkeys-1` up to length `n` (depth-first, shared prefixes run once); after
every append and after the finalisation of every prefix the two states are compared -/
partial def dfs (P : Py.Prog) (cmp : Bool) (cap lim nkeys : Nat) : Nat → List Nat → Coo → Py.Val → Acc → R Acc
  | left, path, c, t, acc => do
    let ctx := fun (stage : String) (p : List Nat) =>
      [("cap", toJson cap), ("lim", toJson lim), ("keys", nats p.reverse), ("stage", Json.str stage)]
    let (acc, _) ← judge cmp cap acc (ctx "finalize" path) (finalize c) (twinFinalize P t)
    if left == 0 then pure acc else
    let mut acc := acc
    for k in List.range nkeys do
      let e := entryOf k
      let (acc', next) ← judge cmp cap acc (ctx "append" (k :: path)) (append lim c e) (twinAppend P t e)
      acc := acc'
      if let some (c', t') := next then
        acc ← dfs P cmp cap lim nkeys (left - 1) (k :: path) c' t' acc
    pure acc

def run (cmp : Bool) (j : Json) : R Acc := do
  needFns ["coo_append", "coo_sum_duplicates", "merge_sum_duplicates", "merge_all_sum_duplicates", "coo_increase_mem"]
  let caps ← match getNats j "caps" with | .ok l => pure l | .error _ => do pure [← getNat j "cap"]
  let lims ← match getNats j "lims" with | .ok l => pure l | .error _ => do pure [← getNat j "lim"]
  let n ← getNat j "n"
  let nkeys := (getNat j "nkeys").toOption.getD 2
  let mut acc : Acc := {}
  for cap in caps do
    for lim in lims do
      -- COO_QUICKSORT_LIMIT reaches the twin the way the verification hook sets it: as a module global
      let P : Py.Prog := { Gen.prog with globals := ("COO_QUICKSORT_LIMIT", .int lim) :: Gen.prog.globals }
      match mk cap with
      | .error _ => continue
      | .ok c0 => acc ← dfs P cmp cap lim nkeys n [] c0 (← record cap) acc
  pure acc

/-- `twin.coo_run`: the request of `coo.run` (an operation sequence, checkpoints every `every` ops) executed by the
regenerated twin; states in the format of `coo.run`, so that the harness can compare the compiled kernels with the
twin on its sampled operation sequences (validates translator + interpreter on this family) -/
def stateJson (i : Nat) (v : View) (raw : Bool) : Json :=
  let liveE := v.entries.take v.ind.toNat
  let ej := fun (l : List Entry) => Json.arr (l.map fun e => ints [e.key, e.row, e.col, e.val]).toArray
  Json.mkObj ([("i", toJson i), ("abs", ej (canon liveE)), ("ind", toJson v.ind), ("depth", toJson v.depth),
    ("cap", toJson v.key.length), ("mcap", toJson v.mins.length)] ++
    (if raw then [("mins", ints v.mins), ("live", ej liveE)] else []))

def stepTwin (P : Py.Prog) (t : Py.Val) : List Int → R (Except Err Py.Val)
  | [0, r, c, v, k] => pure (twinAppend P t ⟨r, c, v, k⟩)
  | [1] => pure (twinInPlace P "coo_sum_duplicates" t)
  | [2] => pure (twinInPlace P "merge_all_sum_duplicates" t)
  | [3] => pure (twinFinalize P t)
  | _ => throw "bad op"

def runOps (j : Json) : R Json := do
  needFns ["coo_append", "coo_sum_duplicates", "merge_sum_duplicates", "merge_all_sum_duplicates", "coo_increase_mem"]
  let cap ← getNat j "cap"
  let lim ← getNat j "lim"
  let every := (getNat j "every").toOption.getD 1
  let raw := (getBool j "raw").toOption.getD false
  let ops ← getIntss j "ops"
  let P : Py.Prog := { Gen.prog with globals := ("COO_QUICKSORT_LIMIT", .int lim) :: Gen.prog.globals }
  let mut t ← record cap
  let mut states : List Json := []
  let mut i := 0
  let viewOf := fun (t : Py.Val) => match view t with
    | some v => pure v
    | none => throw (α := View) "twin unavailable: state is not a CooArray of integer arrays"
  for op in ops do
    let r ← stepTwin P t op
    guardUnsupported "coo_append family" r
    match r with
    | .error e =>
      return Json.mkObj [("states", Json.arr states.toArray), ("err", Json.str (toString e)), ("err_at", toJson i)]
    | .ok t' =>
      t := t'
      i := i + 1
      if every ≠ 0 ∧ i % every = 0 then states := states ++ [stateJson i (← viewOf t) raw]
  if every = 0 ∨ i % every ≠ 0 ∨ i = 0 then states := states ++ [stateJson i (← viewOf t) raw]
  pure <| Json.mkObj [("states", Json.arr states.toArray), ("err", Json.null), ("err_at", Json.null)]

end CooTwin

/-! ### em_update_matrix vs `VecModel.EM.emUpdateIdx` (C11) -/
namespace EMTwin
open VecModel.EM

def sublists : List Nat → List (List Nat)
  | [] => [[]]
  | x :: xs => let r := sublists xs; r ++ r.map (x :: ·)

/-- all lists over `alpha` of length ≤ n -/
def lists (alpha : List α) : Nat → List (List α)
  | 0 => [[]]
  | n + 1 => let shorter := lists alpha n
    shorter ++ (shorter.filter (·.length == n)).flatMap fun l => alpha.map fun a => a :: l

/-- all kernels of the shape of a window -/
def kernelsFor (alpha : List Rat) : Nat → List (List Rat)
  | 0 => [[]]
  | n + 1 => (kernelsFor alpha n).flatMap fun l => alpha.map fun a => a :: l

def ratVal (q : Rat) : Py.Val := if q.den == 1 then .int q.num else .rat q
def natVal (n : Nat) : Py.Val := .int (n : Int)

def callTwin (indptr indices : List Nat) (data post : List Rat) (n : Nat) (o : Occ) : Except Err (Py.Val × Py.Env) :=
  Py.callFn Gen.prog "em_update_matrix"
    [.list (post.map ratVal), .list (indices.map natVal), .list (indptr.map natVal), .list (data.map ratVal),
     natVal n, natVal o.target, .list (o.windows.map fun w => .list (w.map natVal)),
     .list (o.kernels.map fun k => .list (k.map ratVal))]

def one (acc : Acc) (indptr indices : List Nat) (data post : List Rat) (n : Nat) (o : Occ) : R Acc := do
  let m := emUpdateIdx indptr indices data n post o
  let t := callTwin indptr indices data post n o
  guardUnsupported "em_update_matrix" t
  let acc := { acc with checked := acc.checked + 1 }
  let acc := match t with
    | .error e => if isMemErr e then
        { acc with memErr := acc.memErr + 1,
                   memSamples := if acc.memSamples.length < 3 then acc.memSamples ++ [Json.mkObj [("indptr", nats indptr), ("indices", nats indices),
                     ("target", toJson o.target), ("windows", Json.arr (o.windows.map nats).toArray), ("kernels", ratss o.kernels),
                     ("err", Json.str (toString e))]] else acc.memSamples }
      else acc
    | _ => acc
  let same := match m, t with
    | .ok mv, .ok (.list tv, _) => (tv.mapM valRat?) == some mv
    | .error _, .error _ => true
    | _, _ => false
  let acc := match m, t with | .error _, .error _ => { acc with bothFail := acc.bothFail + 1 } | _, _ => acc
  if same then pure acc else
    pure <| acc.addBad (Json.mkObj [("indptr", nats indptr), ("indices", nats indices), ("data", rats data), ("post", rats post),
      ("n", toJson n), ("target", toJson o.target), ("windows", Json.arr (o.windows.map nats).toArray),
      ("kernels", ratss o.kernels), ("model", exceptJson rats m), ("twin", twinResJson t)])

/-- scope: `n = 2` tokens, `W ∈ {1, 2}` windows (columns `0..W*n-1`), two-row CSR matrices (one row runs over every
column subset, the other over {∅, {1}}), both targets, every window over the tokens up to length `wlen`, every
kernel of the window's shape over {0, 1, 1/2} (second window {0, 1}); data `1, 2, 3 …`, posterior `0, 1, 2 …`.
Every 5th case is repeated with the last prior value / posterior cell / kernel weight missing (both sides must
then fail, or not, together). -/
def run (malformed : Bool) (j : Json) : R Acc := do
  needFns ["em_update_matrix"]
  let wlen := (getNat j "wlen").toOption.getD 2
  let n := 2
  let mut acc : Acc := {}
  let mut tick := 0
  for W in [1, 2] do
    let cols := List.range (W * n)
    let wins := lists (List.range n) wlen
    let winKer : List (List (List Nat) × List (List Rat)) :=
      if W == 1 then wins.flatMap fun w => (kernelsFor [0, 1, 1/2] w.length).map fun k => ([w], [k])
      else wins.flatMap fun w1 => (kernelsFor [0, 1, 1/2] w1.length).flatMap fun k1 =>
        wins.flatMap fun w2 => (kernelsFor [0, 1] w2.length).map fun k2 => ([w1, w2], [k1, k2])
    for rowA in sublists cols do
      for rowB in [[], [1]] do
        for target in [0, 1] do
          let rows := if target == 0 then [rowA, rowB] else [rowB, rowA]
          let indices := rows.flatten
          let indptr := [0, (rows.headD []).length, indices.length]
          let data : List Rat := (List.range indices.length).map fun k => ((k + 1 : Nat) : Rat)
          let post : List Rat := (List.range indices.length).map fun k => ((k : Nat) : Rat)
          for (ws, ks) in winKer do
            let o : Occ := { target := target, windows := ws, kernels := ks }
            acc ← one acc indptr indices data post n o
            tick := tick + 1
            if malformed && tick % 5 == 0 then
              acc ← one acc indptr indices data.dropLast post n o
              acc ← one acc indptr indices data post.dropLast n o
              acc ← one acc indptr indices data post n { o with kernels := ks.dropLast ++ [(ks.getLastD []).dropLast] }
              acc ← one acc (indptr.dropLast) indices data post n o
  pure acc

end EMTwin

/-! ### lempel_ziv_based_encode / murmurhash vs `VecModel.LZ` (C16) -/
namespace LZTwin
open VecModel.LZ

def strOf (s : List Nat) : String := String.ofList (s.map Char.ofNat)
def codes (s : String) : List Nat := s.toList.map Char.toNat

def dictVal (d : Dict (List Nat)) : Py.Val := .dict (d.map fun kv => (.str (strOf kv.1), .int (kv.2 : Nat)))

def dictOf : Py.Val → Option (Dict (List Nat))
  | .dict kv => kv.mapM fun p => match p with
    | (.str k, .int v) => if v ≥ 0 then some (codes k, v.toNat) else none
    | _ => none
  | _ => none

def dictJson (d : Dict (List Nat)) : Json := Json.arr (d.map fun kv => Json.arr #[Json.str (strOf kv.1), toJson kv.2]).toArray

def run (j : Json) : R Json := do
  needFns ["lempel_ziv_based_encode", "identity_hash", "murmurhash"]
  let n := (getNat j "n").toOption.getD 7
  let mlen := (getNat j "mlen").toOption.getD 6
  let mut acc : Acc := {}
  let mut nLz := 0
  let mut nMur := 0
  for s in EMTwin.lists [97, 98] n do
    for cap in [1, 2, 3, 100] do
      for base in ([[], [([97], 1), ([98], 1)]] : List (Dict (List Nat))) do
        nLz := nLz + 1
        let m := encode (κ := List Nat) id cap base s
        let t := Py.callFn Gen.prog "lempel_ziv_based_encode" [.str (strOf s), dictVal base, .str "<fn identity_hash>", .int (cap : Nat)]
        guardUnsupported "lempel_ziv_based_encode" t
        acc := { acc with checked := acc.checked + 1 }
        let same := match t with
          | .ok (v, _) => dictOf v == some m
          | .error _ => false
        if !same then
          acc := acc.addBad (Json.mkObj [("fn", Json.str "lempel_ziv_based_encode"), ("string", Json.str (strOf s)), ("max_size", toJson cap),
            ("base", dictJson base), ("model", dictJson m), ("twin", twinResJson t)])
  for key in EMTwin.lists [0, 97, 255] mlen do
    for seed in [0, 7, 2147483646] do
      nMur := nMur + 1
      let m := murmur key seed
      let t := Py.callFn Gen.prog "murmurhash" [.list (key.map fun (k : Nat) => Py.Val.int k), .int (seed : Nat)]
      guardUnsupported "murmurhash" t
      acc := { acc with checked := acc.checked + 1 }
      let same := match t with
        | .ok (v, _) => valInt? v == some (m : Int)
        | .error _ => false
      if !same then
        acc := acc.addBad (Json.mkObj [("fn", Json.str "murmurhash"), ("key", nats key), ("seed", toJson seed),
          ("model", toJson m), ("twin", twinResJson t)])
  pure <| Json.mkObj [("checked", toJson acc.checked), ("lz_cases", toJson nLz), ("murmur_cases", toJson nMur),
    ("disagreements", Json.arr (acc.bad.filter (· != Json.null)).toArray)]

end LZTwin

/-! ### contract_and_count_pairs (encoding part) and bpe_encode vs `VecModel.BPE` (C09) -/
namespace BPETwin

def run (j : Json) : R Json := do
  needFns ["contract_pair", "contract_and_count_pairs", "bpe_encode"]
  let n := (getNat j "n").toOption.getD 5
  let mut acc : Acc := {}
  let mut nCc := 0
  let mut nEnc := 0
  let pairs : List (Int × Int) := [(1, 1), (1, 2), (2, 1), (2, 2)]
  let pairVal := fun (p : Int × Int) => Py.Val.tuple [.int p.1, .int p.2]
  let countDicts : List Py.Val := [.dict [], .dict [(pairVal (1, 2), .int 3), (pairVal (2, 1), .int 1), (pairVal (3, 9), .int 1)]]
  for a in allLists [1, 2, 3] n do
    for p in pairs do
      for pc in countDicts do
        nCc := nCc + 1
        let m := BPE.contractPairIdx a p 9
        let t := Py.callFn Gen.prog "contract_and_count_pairs" [.list (a.map .int), pairVal p, pc, .int 9]
        guardUnsupported "contract_and_count_pairs" t
        acc := { acc with checked := acc.checked + 1 }
        let same := match m, t with
          | .ok mv, .ok (.tuple [.list tv, .dict _], _) => tv == mv.map Py.Val.int && mv == BPE.contract p 9 a
          | .error _, .error _ => true
          | _, _ => false
        if !same then
          acc := acc.addBad (Json.mkObj [("fn", Json.str "contract_and_count_pairs"), ("a", ints a), ("p", ints [p.1, p.2]),
            ("pair_counts", ofVal pc), ("model", exceptJson ints m), ("twin", twinResJson t)])
  -- bpe_encode: strings over {a, b, z} (z = 122 > max_char_code = 98 is clipped to 0), well-formed merge lists
  let mcc : Int := 98
  let codeLists : List (List (Int × Int)) :=
    [[], [(97, 98)], [(97, 98), (99, 97)], [(97, 97), (99, 99)], [(98, 98), (97, 99), (100, 100)], [(0, 97), (97, 0)]]
  for s in allLists [97, 98, 122] n do
    for cl in codeLists do
      nEnc := nEnc + 1
      let mi := BPE.encodeIdx cl mcc s
      let mf := BPE.encode cl mcc s
      let str := String.ofList (s.map fun c => Char.ofNat c.toNat)
      let t := Py.callFn Gen.prog "bpe_encode" [.str str, .list (cl.map pairVal), .int mcc]
      guardUnsupported "bpe_encode" t
      acc := { acc with checked := acc.checked + 1 }
      let same := match mi, t with
        | .ok mv, .ok (.list tv, _) => tv == mv.map Py.Val.int && mv == mf
        | .error _, .error _ => true
        | _, _ => false
      if !same then
        acc := acc.addBad (Json.mkObj [("fn", Json.str "bpe_encode"), ("chars", Json.str str), ("code_list", pairsJson cl),
          ("max_char_code", toJson mcc), ("model", exceptJson ints mi), ("model_fun", ints mf), ("twin", twinResJson t)])
  pure <| Json.mkObj [("checked", toJson acc.checked), ("contract_and_count_cases", toJson nCc), ("bpe_encode_cases", toJson nEnc),
    ("disagreements", Json.arr (acc.bad.filter (· != Json.null)).toArray)]

end BPETwin

/-! ### sum_coo_entries vs `VecModel.Skipgram.sumCooEntries` (C06) -/
namespace SumCooTwin
open VecModel.Skipgram

def tripleVal (t : Triple) : Py.Val := .tuple [.int (t.1 : Nat), .int (t.2.1 : Nat), EMTwin.ratVal t.2.2]

def tripleOf : Py.Val → Option Triple
  | .tuple [h, t, w] => do
    let h ← valInt? h
    let t ← valInt? t
    let w ← valRat? w
    if h < 0 ∨ t < 0 then none else some (h.toNat, t.toNat, w)
  | _ => none

def tripleJson (t : Triple) : Json := Json.arr #[toJson t.1, toJson t.2.1, ratJson t.2.2]

def run (j : Json) : R Json := do
  needFns ["sum_coo_entries"]
  let n := (getNat j "n").toOption.getD 4
  let alpha : List Triple := [0, 1].flatMap fun h => [0, 1].flatMap fun t => ([1, 1/2] : List Rat).map fun w => (h, t, w)
  let mut acc : Acc := {}
  for seq in EMTwin.lists alpha n do
    let m := sumCooEntries seq
    let t := Py.callFn Gen.prog "sum_coo_entries" [.list (seq.map tripleVal)]
    guardUnsupported "sum_coo_entries" t
    acc := { acc with checked := acc.checked + 1 }
    let same := match m, t with
      | .ok mv, .ok (.list tv, _) => tv.mapM tripleOf == some mv
      | .error _, .error _ => true
      | _, _ => false
    if let (.error _, .error _) := (m, t) then acc := { acc with bothFail := acc.bothFail + 1 }
    if !same then
      acc := acc.addBad (Json.mkObj [("seq", Json.arr (seq.map tripleJson).toArray),
        ("model", exceptJson (fun l => Json.arr (l.map tripleJson).toArray) m), ("twin", twinResJson t)])
  pure acc.json

end SumCooTwin

/-! ### arr_union / arr_intersect (→ arr_unique) vs `VecModel.Dist.arrUnion` / `arrIntersect` (C18) -/
namespace ArrTwin

def run (j : Json) : R Json := do
  needFns ["arr_unique", "arr_union", "arr_intersect"]
  let n := (getNat j "n").toOption.getD 3
  let k := (getNat j "k").toOption.getD 3
  let ls := EMTwin.lists (List.range k) n          -- unsorted lists with duplicates included
  let mut acc : Acc := {}
  for a in ls do
    for b in ls do
      for (fn, model) in [("arr_union", Dist.arrUnion), ("arr_intersect", Dist.arrIntersect)] do
        let m := model a b
        let t := Py.callFn Gen.prog fn [.list (a.map EMTwin.natVal), .list (b.map EMTwin.natVal)]
        guardUnsupported fn t
        acc := { acc with checked := acc.checked + 1 }
        let same := match t with
          | .ok (.list tv, _) => tv.mapM valInt? == some (m.map fun (x : Nat) => (x : Int))
          | _ => false
        if !same then
          acc := acc.addBad (Json.mkObj [("fn", Json.str fn), ("ar1", nats a), ("ar2", nats b), ("model", nats m), ("twin", twinResJson t)])
  pure acc.json

end ArrTwin

def handle (op : String) (j : Json) : Option (R Json) :=
  match op with
  | "twin.info" => some do
    pure <| Json.mkObj [("available", toJson Gen.available.toArray),
      ("unavailable", Json.arr (Gen.unavailable.map fun p => Json.arr #[Json.str p.1, Json.str p.2]).toArray)]
  | "twin.call" => some do
    let fn ← getStr j "fn"
    let args ← j.getObjValAs? (Array Json) "args"
    let vals ← args.toList.mapM toVal
    let P ← withGlobals j
    match Py.callFn P fn vals with
    | .ok (r, env) =>
      -- also report the final values of the parameters (in-place mutation is observable there)
      let fd := P.fns.find? (·.name == fn)
      let params := match fd with | some fd => fd.params | none => []
      let finals := params.filterMap fun p => (env.find? (·.1 == p)).map fun kv => Json.arr #[Json.str p, ofVal kv.2]
      pure <| Json.mkObj [("ok", ofVal r), ("params", Json.arr finals.toArray)]
    | .error e => pure <| Json.mkObj [("err", Json.str (toString e))]
  | "twin.scope" => some do
    -- run a regenerated kernel over an exhaustive small scope under Python semantics with checked
    -- accesses: counts results and errors (IndexError = oob, UnboundLocalError = unbound)
    let fn ← getStr j "fn"
    needFns [fn]
    let gens ← j.getObjValAs? (Array Json) "args"
    let P ← withGlobals j
    let argLists ← gens.toList.mapM genArg
    let mut n := 0
    let mut oks := 0
    let mut oob : List Json := []
    let mut other : List Json := []
    let mut nOob := 0
    let mut nOther := 0
    for args in cartesian argLists do
      n := n + 1
      match Py.callFn P fn args with
      | .ok _ => oks := oks + 1
      | .error (.oob nm i l) =>
        nOob := nOob + 1
        if oob.length < 3 then oob := oob ++ [Json.mkObj [("args", Json.arr (args.map ofVal).toArray), ("err", Json.str s!"oob:{nm}[{i}]/{l}")]]
      | .error (.unbound v) =>
        nOob := nOob + 1
        if oob.length < 3 then oob := oob ++ [Json.mkObj [("args", Json.arr (args.map ofVal).toArray), ("err", Json.str s!"unbound:{v}")]]
      | .error e =>
        nOther := nOther + 1
        if other.length < 3 then other := other ++ [Json.mkObj [("args", Json.arr (args.map ofVal).toArray), ("err", Json.str (toString e))]]
    pure <| Json.mkObj [("cases", toJson n), ("ok", toJson oks), ("memory_errors", toJson nOob),
      ("other_errors", toJson nOther), ("memory_error_samples", Json.arr oob.toArray),
      ("other_error_samples", Json.arr other.toArray)]
  | "twin.sparse_exhaustive" => some do
    -- regenerated sparse_sum / sparse_diff / sparse_mul vs the hand model (Dist.sparseSum …), every pair of
    -- sorted duplicate-free index lists over {0..k-1} with data from a small alphabet
    let k ← getNat j "k"
    needFns ["sparse_sum", "sparse_diff", "sparse_mul", "arr_union", "arr_intersect", "arr_unique"]
    let alpha : List Py.Val := (List.range k).map fun i => Py.Val.int (i : Nat)
    let subs := (alpha.foldr (fun x acc => acc ++ acc.map (x :: ·)) [[]])
    let natOf : Py.Val → Nat := fun v => match v with | .int i => i.toNat | _ => 0
    let dataFor : List Py.Val → List (List Rat) := fun idx =>
      -- two data patterns per index list: all ones, and alternating 2, -1 (creates zeros in sums)
      [idx.map (fun _ => (1 : Rat)), (List.range idx.length).map fun t => if t % 2 == 0 then (2 : Rat) else (-1 : Rat)]
    let mut checked := 0
    let mut bad : List Json := []
    for i1 in subs do
      for i2 in subs do
        for d1 in dataFor i1 do
          for d2 in dataFor i2 do
            for (fn, model) in [("sparse_sum", Dist.sparseSum), ("sparse_diff", Dist.sparseDiff), ("sparse_mul", Dist.sparseMul)] do
              checked := checked + 1
              let m := model (i1.map natOf) d1 (i2.map natOf) d2
              let t := Py.callFn Gen.prog fn [.list i1, .list (d1.map Py.Val.rat), .list i2, .list (d2.map Py.Val.rat)]
              let same := match m, t with
                | .ok mv, .ok (.tuple [.list ti, .list td], _) =>
                  ti == mv.map (fun p => Py.Val.int (p.1 : Nat)) && td == mv.map (fun p => Py.Val.rat p.2)
                | .error _, .error _ => true
                | _, _ => false
              if !same && bad.length < 4 then
                bad := bad ++ [Json.mkObj [("fn", Json.str fn), ("ind1", Json.arr (i1.map ofVal).toArray), ("ind2", Json.arr (i2.map ofVal).toArray),
                  ("data1", rats d1), ("data2", rats d2),
                  ("twin", match t with | .ok (v, _) => ofVal v | .error e => Json.str (toString e)),
                  ("model", match m with | .ok mv => Json.arr (mv.map fun p => Json.arr #[toJson p.1, ratJson p.2]).toArray | .error e => Json.str (toString e))]]
    pure <| Json.mkObj [("checked", toJson checked), ("disagreements", Json.arr bad.toArray)]
  | "twin.ngrams_exhaustive" => some do
    let n ← getNat j "n"
    needFns ["ngrams_of"]
    let mut checked := 0
    let mut bad : List Json := []
    for s in allLists [1, 2] n do
      for size in [1, 2, 3] do
        for (bname, beh) in [("exact", Ngram.Behaviour.exact), ("subgrams", Ngram.Behaviour.subgrams)] do
          checked := checked + 1
          let m := Ngram.ngramsOf s size beh
          let t := Py.callFn Gen.prog "ngrams_of" [.list (s.map .int), .int size, .str bname]
          let same := match t with
            | .ok (.list gs, _) => gs == m.map (fun g => Py.Val.list (g.map .int))
            | _ => false
          if !same && bad.length < 4 then
            bad := bad ++ [Json.mkObj [("s", ints s), ("n", toJson size), ("beh", Json.str bname),
              ("twin", match t with | .ok (v, _) => ofVal v | .error e => Json.str (toString e)), ("model", intss m)]]
    pure <| Json.mkObj [("checked", toJson checked), ("disagreements", Json.arr bad.toArray)]
  | "twin.window_exhaustive" => some do
    let n ← getNat j "n"
    needFns ["window_at_index"]
    let mut checked := 0
    let mut bad : List Json := []
    for s in allLists [1, 2] n do
      for r in [0, 1, 2, 3, 7] do
        for i in List.range (s.length + 1) do
          for rev in [true, false] do
            checked := checked + 1
            let m := Window.windowAt s r i rev
            let t := Py.callFn Gen.prog "window_at_index" [.list (s.map .int), .int r, .int i, .bool rev]
            let same := match t with
              | .ok (.list w, _) => w == m.map Py.Val.int
              | _ => false
            if !same && bad.length < 4 then
              bad := bad ++ [Json.mkObj [("s", ints s), ("r", toJson r), ("i", toJson i), ("rev", toJson rev),
                ("twin", match t with | .ok (v, _) => ofVal v | .error e => Json.str (toString e)), ("model", ints m)]]
    pure <| Json.mkObj [("checked", toJson checked), ("disagreements", Json.arr bad.toArray)]
  | "twin.bpe_exhaustive" => some do
    -- regenerated contract_pair vs hand model, every array over {1,2,3} up to length n, pairs over {1,2}
    let n ← getNat j "n"
    needFns ["contract_pair"]
    let arrays := allLists [1, 2, 3] n
    let pairs : List (Int × Int) := [(1, 1), (1, 2), (2, 1), (2, 2)]
    let mut checked := 0
    let mut bad : List Json := []
    for a in arrays do
      for p in pairs do
        checked := checked + 1
        let model := BPE.contractPairIdx a p 9
        let twin := Py.callFn Gen.prog "contract_pair"
          [.list (a.map .int), .tuple [.int p.1, .int p.2], .int 9]
        let same := match model, twin with
          | .ok m, .ok (.list t, _) => t == m.map Py.Val.int
          | .error _, .error _ => true
          | _, _ => false
        if !same && bad.length < 5 then
          bad := bad ++ [Json.mkObj [("a", ints a), ("p", ints [p.1, p.2]),
            ("model", exceptJson ints model),
            ("twin", match twin with | .ok (v, _) => ofVal v | .error e => Json.str (toString e))]]
    pure <| Json.mkObj [("checked", toJson checked), ("disagreements", Json.arr bad.toArray)]
  | "twin.coo_exhaustive" => some do
    -- regenerated coo_append / coo_sum_duplicates / merge_* / coo_increase_mem vs the index-level model Coo.*:
    -- every append sequence up to length n over nkeys cells, every (cap, lim); compared after every append and
    -- after the finalisation of every prefix
    let acc ← CooTwin.run true j
    pure <| acc.json.mergeObj (Json.mkObj [("grown_states", toJson acc.grew), ("multi_level_states", toJson acc.deep)])
  | "twin.coo_run" => some (CooTwin.runOps j)
  | "twin.coo_scope" => some do
    -- the same sequences, twin only: IndexError / UnboundLocalError under checked Python semantics (C10)
    let acc ← CooTwin.run false j
    pure <| Json.mkObj [("cases", toJson acc.checked), ("fn", Json.str "coo_append"), ("memory_errors", toJson acc.memErr),
      ("memory_error_samples", Json.arr acc.memSamples.toArray)]
  | "twin.em_exhaustive" => some do pure (← EMTwin.run true j).json
  | "twin.em_scope" => some do
    -- valid CSR inputs only, twin only: IndexError / UnboundLocalError under checked Python semantics (C10)
    let acc ← EMTwin.run false j
    pure <| Json.mkObj [("cases", toJson acc.checked), ("fn", Json.str "em_update_matrix"), ("memory_errors", toJson acc.memErr),
      ("memory_error_samples", Json.arr acc.memSamples.toArray)]
  | "twin.lz_exhaustive" => some (LZTwin.run j)
  | "twin.bpe_encode_exhaustive" => some (BPETwin.run j)
  | "twin.sumcoo_exhaustive" => some (SumCooTwin.run j)
  | "twin.arr_exhaustive" => some (ArrTwin.run j)
  | _ => none

end Driver.Twin
