import Driver.Util
import Gen.Kernels
import VecModel.Model.BPE
import VecModel.Model.Distances
import VecModel.Model.Ngram
import VecModel.Model.Window
open Lean VecModel
namespace Driver.Twin

/-- JSON → interpreter value: ints, strings, bools, null, arrays (lists), {"t":[..]} tuples,
{"q":"n/d"} rationals, {"rec":[[field, v]...]} records, {"d":[[k,v]...]} dicts -/
partial def toVal (j : Json) : R Py.Val :=
  match j with
  | .null => pure .none
  | .bool b => pure (.bool b)
  | .str s => pure (.str s)
  | .num n => if n.exponent = 0 then pure (.int n.mantissa) else throw "send non-integers as {\"q\": \"n/d\"}"
  | .arr a => do pure (.list (← a.toList.mapM toVal))
  | .obj _ => do
    match j.getObjVal? "t" with
    | .ok (.arr a) => pure (.tuple (← a.toList.mapM toVal))
    | _ =>
    match j.getObjVal? "q" with
    | .ok q => pure (.rat (← jsonRat q))
    | _ =>
    match j.getObjVal? "rec" with
    | .ok (.arr a) => do
      let fs ← a.toList.mapM fun kv => match kv with
        | .arr #[.str k, v] => do pure (k, ← toVal v)
        | _ => throw "rec: [field, value]"
      pure (.record fs)
    | _ =>
    match j.getObjVal? "d" with
    | .ok (.arr a) => do
      let kv ← a.toList.mapM fun kv => match kv with
        | .arr #[k, v] => do pure (← toVal k, ← toVal v)
        | _ => throw "d: [key, value]"
      pure (.dict kv)
    | _ => throw "unsupported value object"

partial def ofVal : Py.Val → Json
  | .int i => toJson i
  | .rat q => if q.den == 1 then toJson q.num else Json.mkObj [("q", ratJson q)]
  | .bool b => toJson b
  | .none => Json.null
  | .str s => Json.str s
  | .tuple vs => Json.mkObj [("t", Json.arr (vs.map ofVal).toArray)]
  | .list vs => Json.arr (vs.map ofVal).toArray
  | .dict kv => Json.mkObj [("d", Json.arr (kv.map fun p => Json.arr #[ofVal p.1, ofVal p.2]).toArray)]
  | .record fs => Json.mkObj [("rec", Json.arr (fs.map fun p => Json.arr #[Json.str p.1, ofVal p.2]).toArray)]

def withGlobals (j : Json) : R Py.Prog := do
  match j.getObjVal? "globals" with
  | .ok (.arr a) => do
    let gs ← a.toList.mapM fun kv => match kv with
      | .arr #[.str k, v] => do pure (k, ← toVal v)
      | _ => throw "globals: [name, value]"
    pure { Gen.prog with globals := gs ++ Gen.prog.globals }
  | _ => pure Gen.prog

/-- all lists over `alpha` of length ≤ n -/
def allLists (alpha : List Int) : Nat → List (List Int)
  | 0 => [[]]
  | n + 1 => let shorter := allLists alpha n
    shorter ++ (shorter.filter (·.length == n)).flatMap fun l => alpha.map fun a => a :: l

/-- all lists of values from `alpha` of length ≤ n -/
def allValLists (alpha : List Py.Val) : Nat → List (List Py.Val)
  | 0 => [[]]
  | n + 1 => let shorter := allValLists alpha n
    shorter ++ (shorter.filter (·.length == n)).flatMap fun l => alpha.map fun a => a :: l

/-- argument generator: {"lists": [alphabet...], "maxlen": n} | {"choices": [v...]} | {"const": v}
| {"sorted_unique_lists": [alphabet...], "maxlen": n} -/
def genArg (j : Json) : R (List Py.Val) := do
  match j.getObjVal? "const" with
  | .ok v => pure [← toVal v]
  | _ =>
  match j.getObjVal? "choices" with
  | .ok (.arr a) => a.toList.mapM toVal
  | _ =>
  match j.getObjVal? "lists", j.getObjValAs? Nat "maxlen" with
  | .ok (.arr a), .ok n => do
    let alpha ← a.toList.mapM toVal
    pure ((allValLists alpha n).map Py.Val.list)
  | _, _ =>
  match j.getObjVal? "sorted_unique_lists", j.getObjValAs? Nat "maxlen" with
  | .ok (.arr a), .ok n => do
    let alpha ← a.toList.mapM toVal
    -- sublists of the (increasing) alphabet, up to length n
    let subs := alpha.foldr (fun x acc => acc ++ acc.map (x :: ·)) [[]]
    pure ((subs.filter (·.length ≤ n)).map Py.Val.list)
  | _, _ => throw "bad argument generator"

def cartesian : List (List Py.Val) → List (List Py.Val)
  | [] => [[]]
  | xs :: rest => let tails := cartesian rest
    xs.flatMap fun x => tails.map fun t => x :: t

def handle (op : String) (j : Json) : Option (R Json) :=
  match op with
  | "twin.info" => some do
    pure <| Json.mkObj [("available", toJson Gen.available.toArray),
      ("unavailable", Json.arr (Gen.unavailable.map fun p => Json.arr #[Json.str p.1, Json.str p.2]).toArray)]
  | "twin.call" => some do
    let fn ← getStr j "fn"
    let args ← j.getObjValAs? (Array Json) "args"
    let vals ← args.toList.mapM toVal
    let P ← withGlobals j
    match Py.callFn P fn vals with
    | .ok (r, env) =>
      -- also report the final values of the parameters (in-place mutation is observable there)
      let fd := P.fns.find? (·.name == fn)
      let params := match fd with | some fd => fd.params | none => []
      let finals := params.filterMap fun p => (env.find? (·.1 == p)).map fun kv => Json.arr #[Json.str p, ofVal kv.2]
      pure <| Json.mkObj [("ok", ofVal r), ("params", Json.arr finals.toArray)]
    | .error e => pure <| Json.mkObj [("err", Json.str (toString e))]
  | "twin.scope" => some do
    -- run a regenerated kernel over an exhaustive small scope under Python semantics with checked
    -- accesses: counts results and errors (IndexError = oob, UnboundLocalError = unbound)
    let fn ← getStr j "fn"
    let gens ← j.getObjValAs? (Array Json) "args"
    let P ← withGlobals j
    let argLists ← gens.toList.mapM genArg
    let mut n := 0
    let mut oks := 0
    let mut oob : List Json := []
    let mut other : List Json := []
    let mut nOob := 0
    let mut nOther := 0
    for args in cartesian argLists do
      n := n + 1
      match Py.callFn P fn args with
      | .ok _ => oks := oks + 1
      | .error (.oob nm i l) =>
        nOob := nOob + 1
        if oob.length < 3 then oob := oob ++ [Json.mkObj [("args", Json.arr (args.map ofVal).toArray), ("err", Json.str s!"oob:{nm}[{i}]/{l}")]]
      | .error (.unbound v) =>
        nOob := nOob + 1
        if oob.length < 3 then oob := oob ++ [Json.mkObj [("args", Json.arr (args.map ofVal).toArray), ("err", Json.str s!"unbound:{v}")]]
      | .error e =>
        nOther := nOther + 1
        if other.length < 3 then other := other ++ [Json.mkObj [("args", Json.arr (args.map ofVal).toArray), ("err", Json.str (toString e))]]
    pure <| Json.mkObj [("cases", toJson n), ("ok", toJson oks), ("memory_errors", toJson nOob),
      ("other_errors", toJson nOther), ("memory_error_samples", Json.arr oob.toArray),
      ("other_error_samples", Json.arr other.toArray)]
  | "twin.sparse_exhaustive" => some do
    -- regenerated sparse_sum / sparse_diff / sparse_mul vs the hand model (Dist.sparseSum …), every pair of
    -- sorted duplicate-free index lists over {0..k-1} with data from a small alphabet
    let k ← getNat j "k"
    let alpha : List Py.Val := (List.range k).map fun i => Py.Val.int (i : Nat)
    let subs := (alpha.foldr (fun x acc => acc ++ acc.map (x :: ·)) [[]])
    let natOf : Py.Val → Nat := fun v => match v with | .int i => i.toNat | _ => 0
    let dataFor : List Py.Val → List (List Rat) := fun idx =>
      -- two data patterns per index list: all ones, and alternating 2, -1 (creates zeros in sums)
      [idx.map (fun _ => (1 : Rat)), (List.range idx.length).map fun t => if t % 2 == 0 then (2 : Rat) else (-1 : Rat)]
    let mut checked := 0
    let mut bad : List Json := []
    for i1 in subs do
      for i2 in subs do
        for d1 in dataFor i1 do
          for d2 in dataFor i2 do
            for (fn, model) in [("sparse_sum", Dist.sparseSum), ("sparse_diff", Dist.sparseDiff), ("sparse_mul", Dist.sparseMul)] do
              checked := checked + 1
              let m := model (i1.map natOf) d1 (i2.map natOf) d2
              let t := Py.callFn Gen.prog fn [.list i1, .list (d1.map Py.Val.rat), .list i2, .list (d2.map Py.Val.rat)]
              let same := match m, t with
                | .ok mv, .ok (.tuple [.list ti, .list td], _) =>
                  ti == mv.map (fun p => Py.Val.int (p.1 : Nat)) && td == mv.map (fun p => Py.Val.rat p.2)
                | .error _, .error _ => true
                | _, _ => false
              if !same && bad.length < 4 then
                bad := bad ++ [Json.mkObj [("fn", Json.str fn), ("ind1", Json.arr (i1.map ofVal).toArray), ("ind2", Json.arr (i2.map ofVal).toArray),
                  ("data1", rats d1), ("data2", rats d2),
                  ("twin", match t with | .ok (v, _) => ofVal v | .error e => Json.str (toString e)),
                  ("model", match m with | .ok mv => Json.arr (mv.map fun p => Json.arr #[toJson p.1, ratJson p.2]).toArray | .error e => Json.str (toString e))]]
    pure <| Json.mkObj [("checked", toJson checked), ("disagreements", Json.arr bad.toArray)]
  | "twin.ngrams_exhaustive" => some do
    let n ← getNat j "n"
    let mut checked := 0
    let mut bad : List Json := []
    for s in allLists [1, 2] n do
      for size in [1, 2, 3] do
        for (bname, beh) in [("exact", Ngram.Behaviour.exact), ("subgrams", Ngram.Behaviour.subgrams)] do
          checked := checked + 1
          let m := Ngram.ngramsOf s size beh
          let t := Py.callFn Gen.prog "ngrams_of" [.list (s.map .int), .int size, .str bname]
          let same := match t with
            | .ok (.list gs, _) => gs == m.map (fun g => Py.Val.list (g.map .int))
            | _ => false
          if !same && bad.length < 4 then
            bad := bad ++ [Json.mkObj [("s", ints s), ("n", toJson size), ("beh", Json.str bname),
              ("twin", match t with | .ok (v, _) => ofVal v | .error e => Json.str (toString e)), ("model", intss m)]]
    pure <| Json.mkObj [("checked", toJson checked), ("disagreements", Json.arr bad.toArray)]
  | "twin.window_exhaustive" => some do
    let n ← getNat j "n"
    let mut checked := 0
    let mut bad : List Json := []
    for s in allLists [1, 2] n do
      for r in [0, 1, 2, 3, 7] do
        for i in List.range (s.length + 1) do
          for rev in [true, false] do
            checked := checked + 1
            let m := Window.windowAt s r i rev
            let t := Py.callFn Gen.prog "window_at_index" [.list (s.map .int), .int r, .int i, .bool rev]
            let same := match t with
              | .ok (.list w, _) => w == m.map Py.Val.int
              | _ => false
            if !same && bad.length < 4 then
              bad := bad ++ [Json.mkObj [("s", ints s), ("r", toJson r), ("i", toJson i), ("rev", toJson rev),
                ("twin", match t with | .ok (v, _) => ofVal v | .error e => Json.str (toString e)), ("model", ints m)]]
    pure <| Json.mkObj [("checked", toJson checked), ("disagreements", Json.arr bad.toArray)]
  | "twin.bpe_exhaustive" => some do
    -- regenerated contract_pair vs hand model, every array over {1,2,3} up to length n, pairs over {1,2}
    let n ← getNat j "n"
    let arrays := allLists [1, 2, 3] n
    let pairs : List (Int × Int) := [(1, 1), (1, 2), (2, 1), (2, 2)]
    let mut checked := 0
    let mut bad : List Json := []
    for a in arrays do
      for p in pairs do
        checked := checked + 1
        let model := BPE.contractPairIdx a p 9
        let twin := Py.callFn Gen.prog "contract_pair"
          [.list (a.map .int), .tuple [.int p.1, .int p.2], .int 9]
        let same := match model, twin with
          | .ok m, .ok (.list t, _) => t == m.map Py.Val.int
          | .error _, .error _ => true
          | _, _ => false
        if !same && bad.length < 5 then
          bad := bad ++ [Json.mkObj [("a", ints a), ("p", ints [p.1, p.2]),
            ("model", exceptJson ints model),
            ("twin", match twin with | .ok (v, _) => ofVal v | .error e => Json.str (toString e))]]
    pure <| Json.mkObj [("checked", toJson checked), ("disagreements", Json.arr bad.toArray)]
  | _ => none

end Driver.Twin
