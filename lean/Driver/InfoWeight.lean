import Driver.Util
import Driver.Distances
import VecModel.Model.InfoWeight
open Lean VecModel
namespace Driver.InfoWeight
open Driver.Distances (floatOf getFloats getFloat floatJson)

def floats (l : List Float) : Json := Json.arr (l.map floatJson).toArray

/-- entries `[row, col, value]` with integer values (count matrices) -/
def getEntries (j : Json) (k : String) : R (List (IW.Entry Float)) := do
  let a ← getIntss j k
  a.mapM fun l => match l with
    | [r, c, v] =>
      if r < 0 ∨ c < 0 then throw "negative index" else pure (r.toNat, c.toNat, Float.ofInt v)
    | _ => throw s!"{k}: expected [row, col, value]"

def getKernel (j : Json) : R IW.Kernel := do
  pure (if (← getBool j "approx") then .approx else .exact)

def getTarget (j : Json) : R (Option (List Nat)) :=
  match getOpt j "target" with
  | none => pure none
  | some _ => do pure (some (← getNats j "target"))

def canonJson (cols : List (List (Nat × Float))) : Json :=
  Json.arr (cols.map (fun col => Json.arr (col.map (fun p =>
    Json.arr #[toJson p.1, floatJson p.2])).toArray)).toArray

def handle (op : String) (j : Json) : Option (R Json) :=
  match op with
  | "iw.search" => some do
    let a ← getNats j "a"
    let vs ← getNats j "vs"
    pure <| Json.mkObj [("idx", Json.arr (vs.map (fun v => exceptJson (fun (n : Nat) => toJson n) (IW.searchsorted a v))).toArray)]
  | "iw.weights" => some do
    let nrows ← getNat j "nrows"
    let ncols ← getNat j "ncols"
    let es ← getEntries j "entries"
    let s ← getFloat j "s"
    let k ← getKernel j
    let p ← getFloat j "p"
    let sw ← getFloat j "sw"
    let t ← getTarget j
    pure <| Json.mkObj [
      ("canon", canonJson (IW.canonCSC ncols es)),
      ("rowsums", floats (IW.rowSums nrows es)),
      ("raw", exceptJson floats (IW.informationWeight nrows ncols es s k none)),
      ("raw_sup", match t with
        | none => Json.null
        | some t => exceptJson floats (IW.informationWeight nrows ncols es s k (some t))),
      ("fit", exceptJson floats (IW.fitWeights nrows ncols es s k p sw t))]
  | "iw.transform" => some do
    let a ← j.getObjValAs? (Array (Array (Array Int))) "X"
    let X ← a.toList.mapM (fun row => row.toList.mapM (fun x => floatOf x.toList))
    let w ← getFloats j "w"
    pure <| Json.mkObj [("T", exceptJson (fun (M : List (List Float)) => Json.arr (M.map floats).toArray) (IW.transform X w))]
  | _ => none

end Driver.InfoWeight
