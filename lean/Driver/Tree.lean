import Driver.Util
import VecModel.Model.Tree
/- ops "tree.cooc" (estimator: preprocess + sequence_tree_skip_grams) and "tree.remove" (remove_node on LIL lists) -/
open Lean VecModel
namespace Driver.Tree
open VecModel.Tree

def parseOrient (s : String) : R Orient :=
  match s with
  | "after" => pure .after
  | "before" => pure .before
  | "symmetric" => pure .symmetric
  | "directional" => pure .directional
  | _ => throw s!"bad orientation {s}"

/-- CSR/LIL of a 0/1 edge list: row `u` holds its columns in increasing order, value 1 -/
def lilOfEdges (n : Nat) (edges : List (Nat × Nat)) : Lil :=
  (List.range n).map fun u =>
    let cols := (edges.filter fun e => e.1 == u).map (·.2)
    (cols.mergeSort (· ≤ ·)).map fun c => (c, (1 : Rat))

def getTree (j : Json) : R TreeIn := do
  let n ← getNat j "n"
  let es ← j.getObjValAs? (Array (Array Nat)) "edges"
  let edges ← es.toList.mapM fun e => match e.toList with
    | [u, v] => pure (u, v)
    | _ => throw "edges: expected pairs"
  let labels ← getNats j "labels"
  pure { n := n, lil := lilOfEdges n edges, labels := labels }

def getLil (j : Json) (k : String) : R Lil := do
  let rows ← j.getObjValAs? (Array (Array (Array Json))) k
  rows.toList.mapM fun row => row.toList.mapM fun cell => match cell.toList with
    | [c, w] => do
      let c ← (fromJson? c : Except String Nat)
      let w ← jsonRat w
      pure (c, w)
    | _ => throw "lil: expected [col, value]"

def lilJson (L : Lil) : Json :=
  Json.arr (L.map fun row => Json.arr (row.map fun p => Json.arr #[toJson p.1, ratJson p.2]).toArray).toArray

def handle (op : String) (j : Json) : Option (R Json) :=
  match op with
  | "tree.cooc" => some do
    let ts ← j.getObjValAs? (Array Json) "trees"
    let trees ← ts.toList.mapM getTree
    let ws ← getRats j "weights"
    let dict ← getNats j "dict"
    let mask ← match getOpt j "mask" with
      | none => pure none
      | some v => do pure (some (← (fromJson? v : Except String Nat)))
    let nul ← getBool j "nullify"
    let o ← parseOrient (← getStr j "orient")
    pure <| exceptJson ratss (vectorize ws dict mask nul o trees)
  | "tree.remove" => some do
    let L ← getLil j "lil"
    let nodes ← getNats j "nodes"
    pure <| exceptJson lilJson (removeNodes L nodes)
  | _ => none

end Driver.Tree
