import Driver.Util
import VecModel.Model.CountsBase
import VecModel.Model.Ngram
import VecModel.Model.Skipgram
import VecModel.Model.EdgeList
/-
  Driver ops of the count vectorizers (C06 / C01): "ngram.*", "coo.sum", "skipgram.*", "edgelist.*".
  Wire formats: a label is `[0, t]` (raw token) or `[1, t1, …, tk]` (tuple); dictionaries are
  arrays of `[key, value]`; rationals are "num/den" strings.
-/
open Lean VecModel VecModel.Counts
namespace Driver.Counts

def natOfInt (i : Int) : R Nat := if i < 0 then throw s!"negative {i}" else pure i.toNat

def getArr (j : Json) (k : String) : R (List Json) := do
  let a ← j.getObjValAs? (Array Json) k
  pure a.toList

def asArr (j : Json) : R (List Json) := do
  let a ← (fromJson? j : Except String (Array Json))
  pure a.toList

def asInt (j : Json) : R Int := fromJson? j
def asNat (j : Json) : R Nat := fromJson? j

def tokNatDict (j : Json) (k : String) : R (List (Int × Nat)) := do
  (← getPairs j k).mapM fun p => do pure (p.1, ← natOfInt p.2)

def natTokDict (j : Json) (k : String) : R (List (Nat × Int)) := do
  (← getPairs j k).mapM fun p => do pure (← natOfInt p.1, p.2)

def parseLabel (j : Json) : R Ngram.Label := do
  let l ← (← asArr j).mapM asInt
  match l with
  | [0, t] => pure (.tok t)
  | 1 :: ts => pure (.tup ts)
  | _ => throw "bad label"

def labelJson : Ngram.Label → Json
  | .tok t => ints [0, t]
  | .tup ts => ints (1 :: ts)

def labelNatDict (j : Json) (k : String) : R (List (Ngram.Label × Nat)) := do
  (← getArr j k).mapM fun p => do
    match (← asArr p) with
    | [l, i] => pure (← parseLabel l, ← asNat i)
    | _ => throw s!"{k}: expected [label, index]"

def natLabelDict (j : Json) (k : String) : R (List (Nat × Ngram.Label)) := do
  (← getArr j k).mapM fun p => do
    match (← asArr p) with
    | [i, l] => pure (← asNat i, ← parseLabel l)
    | _ => throw s!"{k}: expected [index, label]"

def parseBeh (s : String) : R Ngram.Behaviour :=
  match s with
  | "exact" => pure .exact
  | "subgrams" => pure .subgrams
  | _ => throw "ValueError: Unrecognized ngram_behaviour!"

def counterJson (c : Ngram.Counter) : Json :=
  Json.arr (c.map fun p => nats [p.1, p.2]).toArray

def countMatrixJson (M : Ngram.CountMatrix) : Json :=
  Json.mkObj [("shape", nats [M.nRows, M.nCols]), ("rows", Json.arr (M.rows.map counterJson).toArray)]

def parseCountMatrix (j : Json) : R Ngram.CountMatrix := do
  let sh ← getNats j "shape"
  let rows ← (← getArr j "rows").mapM fun r => do
    (← asArr r).mapM fun p => do
      match (← asArr p) with
      | [a, b] => pure ((← asNat a), (← asNat b))
      | _ => throw "rows: expected [col, count]"
  match sh with
  | [r, c] => pure ⟨r, c, rows⟩
  | _ => throw "shape"

def parseFitted (j : Json) : R Ngram.Fitted := do
  pure { n := ← getNat j "n", beh := ← parseBeh (← getStr j "beh"),
         tokDict := ← tokNatDict j "tok", invDict := ← natTokDict j "inv",
         colLabel := ← labelNatDict j "col", colIndex := ← natLabelDict j "idx",
         train := ← parseCountMatrix (← j.getObjVal? "train") }

def fittedJson (m : Ngram.Fitted) : List (String × Json) := [
  ("tok", Json.arr (m.tokDict.map fun p => ints [p.1, p.2]).toArray),
  ("inv", Json.arr (m.invDict.map fun p => ints [p.1, p.2]).toArray),
  ("col", Json.arr (m.colLabel.map fun p => Json.arr #[labelJson p.1, toJson p.2]).toArray),
  ("idx", Json.arr (m.colIndex.map fun p => Json.arr #[toJson p.1, labelJson p.2]).toArray),
  ("train", countMatrixJson m.train)]

def entryJson (e : Entry) : Json := Json.arr #[toJson e.1, toJson e.2.1, ratJson e.2.2]

def matrixJson (M : Matrix) : Json :=
  Json.mkObj [("shape", nats [M.nRows, M.nCols]), ("entries", Json.arr (M.entries.map entryJson).toArray)]

def parseTriples (j : Json) (k : String) : R (List (Nat × Nat × Rat)) := do
  (← getArr j k).mapM fun t => do
    match (← asArr t) with
    | [a, b, w] => pure ((← asNat a), (← asNat b), (← jsonRat w))
    | _ => throw s!"{k}: expected [a, b, w]"

def parseEdges (j : Json) (k : String) : R (List EdgeList.Edge) := do
  (← getArr j k).mapM fun t => do
    match (← asArr t) with
    | [a, b, w] => pure ((← asInt a), (← asInt b), (← jsonRat w))
    | _ => throw s!"{k}: expected [r, c, v]"

/-- kernel weights by distance `1 … kw.length`; the caller guarantees every window radius is
at most `kw.length` (checked below), so the default is never read -/
def kernelOf (kw : List Rat) : Nat → Rat := fun d => if d = 0 then 0 else kw.getD (d - 1) 0

def checkKw (ws : List Nat) (kw : List Rat) : R Unit :=
  if ws.all (· ≤ kw.length) then pure () else throw "kw shorter than a window radius"

def optDict (j : Json) (k : String) : R (Option (List (Int × Nat))) :=
  match getOpt j k with
  | none => pure none
  | some _ => do pure (some (← tokNatDict j k))

def dictJson (d : List (Int × Nat)) : Json := Json.arr (d.map fun p => ints [p.1, p.2]).toArray

def handle (op : String) (j : Json) : Option (R Json) :=
  match op with
  | "ngram.grams" => some do
    let s ← getInts j "seq"
    let n ← getNat j "n"
    let beh ← parseBeh (← getStr j "beh")
    pure <| Json.mkObj [("loop", intss (Ngram.ngramsOf s n beh)), ("spec", intss (Ngram.gramsSpec s n beh)),
                        ("occ", nats ((Ngram.gramsSpec s n beh).map fun g => Ngram.countOcc g s))]
  | "ngram.transform" => some do
    let n ← getNat j "n"
    let beh ← parseBeh (← getStr j "beh")
    let tok ← tokNatDict j "tok"
    let inv ← natTokDict j "inv"
    let col ← labelNatDict j "col"
    let m : Ngram.Fitted :=
      { n := n, beh := beh, tokDict := tok, invDict := inv, colLabel := col, colIndex := [],
        train := ⟨0, 0, []⟩ }
    let X ← getIntss j "X"
    pure <| Json.mkObj [("m", exceptJson countMatrixJson (Ngram.transform m X)),
                        ("kept", intss (X.map (kept m.tokDict)))]
  | "ngram.fit1" => some do
    let X ← getIntss j "X"
    pure <| exceptJson (fun m => Json.mkObj (fittedJson m)) (Ngram.fitUnigram X)
  | "ngram.add" => some do
    let a ← parseFitted (← j.getObjVal? "a")
    let b ← parseFitted (← j.getObjVal? "b")
    let enum ← (← getArr j "enum").mapM parseLabel
    let X ← getIntss j "X"
    pure <| exceptJson (fun m => Json.mkObj (fittedJson m ++
      [("tr", exceptJson countMatrixJson (Ngram.transform m X))])) (Ngram.add a b enum)
  | "coo.sum" => some do
    let seq ← parseTriples j "seq"
    pure <| exceptJson (fun l => Json.arr (l.map entryJson).toArray) (Skipgram.sumCooEntries seq)
  | "skipgram.doc" => some do
    let s ← getNats j "seq"
    let ws ← getNats j "ws"
    let kw ← getRats j "kw"
    checkKw ws kw
    pure <| exceptJson (fun l => Json.arr (l.map entryJson).toArray) (Skipgram.buildSkipGrams ws (kernelOf kw) s)
  | "skipgram.fit" => some do
    let tok ← tokNatDict j "tok"
    let inv ← natTokDict j "inv"
    let ws ← getNats j "ws"
    let kw ← getRats j "kw"
    checkKw ws kw
    let X ← getIntss j "X"
    let Xt ← getIntss j "Xt"
    pure <| exceptJson (fun m => Json.mkObj [
        ("kept", nats (keptCols m.mask)),
        ("col", Json.arr (m.colLabel.map fun p => Json.arr #[ints [p.1.1, p.1.2], toJson p.2]).toArray),
        ("train", matrixJson m.train),
        ("trX", exceptJson matrixJson (Skipgram.transform m (kernelOf kw) X)),
        ("trXt", exceptJson matrixJson (Skipgram.transform m (kernelOf kw) Xt))])
      (Skipgram.fit tok inv ws (kernelOf kw) X)
  | "edgelist.fit" => some do
    let E ← parseEdges j "E"
    let Et ← parseEdges j "Et"
    let joint ← getBool j "joint"
    let rowd ← optDict j "rowd"
    let cold ← optDict j "cold"
    pure <| exceptJson (fun m => Json.mkObj [
        ("rowd", dictJson m.rowDict), ("cold", dictJson m.colDict),
        ("train", matrixJson m.train),
        ("trE", exceptJson matrixJson (EdgeList.transform m E)),
        ("trEt", exceptJson matrixJson (EdgeList.transform m Et))])
      (EdgeList.fit joint rowd cold E)
  | _ => none

end Driver.Counts
