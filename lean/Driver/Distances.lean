import Driver.Util
import VecModel.Model.Distances
open Lean VecModel
namespace Driver.Distances

/-- IEEE doubles travel exactly as `[m, e]` = m·2^e (m an integer below 2^53 in absolute value) -/
def floatOf (l : List Int) : R Float :=
  match l with
  | [m, e] => pure ((Float.ofInt m).scaleB e)
  | _ => throw "float: expected [mantissa, exponent]"

def getFloats (j : Json) (k : String) : R (List Float) := do
  let a ← getIntss j k
  a.mapM floatOf

def getFloat (j : Json) (k : String) : R Float := do
  floatOf (← getInts j k)

/-- doubles are returned exactly as `[m, e]` = m·2^e -/
def floatJson (f : Float) : Json :=
  if f == 0 then toJson (#[0, 0] : Array Int) else
  let fe := f.frExp
  let m : Int := (fe.1.scaleB 53).toInt64.toInt
  toJson (#[m, fe.2 - 53] : Array Int)

def pairsNR (l : List (Nat × Rat)) : Json :=
  Json.mkObj [("ind", nats (l.map (·.1))), ("data", rats (l.map (·.2)))]

def pairsRR (l : List (Rat × Rat)) : Json :=
  Json.mkObj [("d1", rats (l.map (·.1))), ("d2", rats (l.map (·.2)))]

def handle (op : String) (j : Json) : Option (R Json) :=
  match op with
  | "dist.helpers" => some do
    let i1 ← getNats j "ind1"
    let d1 ← getRats j "data1"
    let i2 ← getNats j "ind2"
    let d2 ← getRats j "data2"
    let z1 := List.zip i1 d1
    let z2 := List.zip i2 d2
    pure <| Json.mkObj [
      ("union", nats (Dist.arrUnion i1 i2)),
      ("intersect", nats (Dist.arrIntersect i1 i2)),
      ("sum", exceptJson pairsNR (Dist.sparseSum i1 d1 i2 d2)),
      ("diff", exceptJson pairsNR (Dist.sparseDiff i1 d1 i2 d2)),
      ("mul", exceptJson pairsNR (Dist.sparseMul i1 d1 i2 d2)),
      ("du", exceptJson pairsRR (Dist.denseUnion i1 d1 i2 d2)),
      ("sumF", pairsNR (Dist.mergeF Dist.sumCfg z1 z2)),
      ("mulF", pairsNR (Dist.mergeF Dist.mulCfg z1 z2)),
      ("duF", pairsRR (Dist.mergeF Dist.duCfg z1 z2))]
  | "dist.sparse_tv" => some do
    let i1 ← getNats j "ind1"
    let d1 ← getRats j "data1"
    let i2 ← getNats j "ind2"
    let d2 ← getRats j "data2"
    pure <| Json.mkObj [("tv", exceptJson ratJson (Dist.sparseTotalVariation i1 d1 i2 d2))]
  | "dist.exact" => some do
    let x ← getRats j "x"
    let y ← getRats j "y"
    pure <| Json.mkObj [
      ("tv", exceptJson ratJson (Dist.totalVariation x y)),
      ("kant", exceptJson ratJson (Dist.kantorovich1d x y))]
  | "dist.float" => some do
    let x ← getFloats j "x"
    let y ← getFloats j "y"
    let eps ← getFloat j "eps"
    pure <| Json.mkObj [
      ("hellinger", exceptJson floatJson (Dist.hellingerG id x y)),
      ("hellinger_noclamp", exceptJson floatJson (Dist.hellingerNoClampG id x y)),
      ("js", exceptJson floatJson (Dist.jensenShannonG eps x y)),
      ("skl", exceptJson floatJson (Dist.symmetricKLG eps x y))]
  | _ => none

end Driver.Distances
