import Driver.Util
import Driver.BPE
import Driver.EM
import Driver.Coo
import Driver.Sliding
import Driver.LZ
import Driver.InfoWeight
import Driver.Distances
import Driver.Cooc
import Driver.Tree
import Driver.Histogram
import Driver.OT
import Driver.Counts
import Driver.Vocab
import Driver.Sparse
import Driver.Heap
import Driver.Twin
/-
  Line protocol: one JSON object per input line, {"op": "<name>", ...}; one JSON object per
  output line. Unknown ops and malformed requests answer {"bad": "<reason>"} — the model never
  defaults silently.
-/
open Lean
namespace Driver

def handlers : List (String → Json → Option (R Json)) := [
  Driver.BPE.handle,
  Driver.EM.handle,
  Driver.Coo.handle,
  Driver.Sliding.handle,
  Driver.LZ.handle,
  Driver.InfoWeight.handle,
  Driver.Distances.handle,
  Driver.Cooc.handle,
  Driver.Tree.handle,
  Driver.Histogram.handle,
  Driver.OT.handle,
  Driver.Counts.handle,
  Driver.Vocab.handle,
  Driver.Sparse.handle,
  Driver.HeapD.handle,
  Driver.Twin.handle
]

def dispatch (j : Json) : Json :=
  match getStr j "op" with
  | .error e => Json.mkObj [("bad", e)]
  | .ok op =>
    let rec go : List (String → Json → Option (R Json)) → Json
      | [] => Json.mkObj [("bad", s!"unknown op {op}")]
      | h :: hs => match h op j with
        | some (.ok r) => r
        | some (.error e) => Json.mkObj [("bad", e)]
        | none => go hs
    go handlers

partial def loop (h : IO.FS.Stream) (out : IO.FS.Stream) : IO Unit := do
  let line ← h.getLine
  if line.isEmpty then return ()
  let resp := match Json.parse line with
    | .ok j => dispatch j
    | .error e => Json.mkObj [("bad", s!"parse: {e}")]
  out.putStrLn resp.compress
  loop h out

end Driver

def main : IO Unit := do
  let out ← IO.getStdout
  Driver.loop (← IO.getStdin) out
  out.flush
