import Driver.Util
import VecModel.Model.EM
open Lean VecModel
namespace Driver.EM

def getOcc (j : Json) : R EM.Occ := do
  let t ← getNat j "t"
  let w ← j.getObjValAs? (Array (Array Nat)) "w"
  let k ← getRatss j "k"
  pure { target := t, windows := w.toList.map Array.toList, kernels := k }

def getOccs (j : Json) (key : String) : R (List EM.Occ) := do
  let a ← j.getObjValAs? (Array Json) key
  a.toList.mapM getOcc

def getChunks (j : Json) (key : String) : R (List (List EM.Occ)) := do
  let a ← j.getObjValAs? (Array (Array Json)) key
  a.toList.mapM fun ch => ch.toList.mapM getOcc

def getNatss (j : Json) (k : String) : R (List (List Nat)) := do
  let a ← j.getObjValAs? (Array (Array Nat)) k
  pure (a.toList.map Array.toList)

/-- matrix travels as parallel `cols` / `vals` row lists -/
def getMat (j : Json) (ck vk : String) : R EM.Mat := do
  let cols ← getNatss j ck
  let vals ← getRatss j vk
  if cols.length ≠ vals.length then throw "cols/vals: row count differs"
  (cols.zip vals).mapM fun (c, v) =>
    if c.length ≠ v.length then throw "cols/vals: row length differs" else pure (c.zip v)

def matJson (M : EM.Mat) : Json :=
  Json.mkObj [("cols", Json.arr (M.map fun r => nats (r.map (·.1))).toArray),
              ("vals", ratss (M.map fun r => r.map (·.2)))]

def minOpt (a b : Option Rat) : Option Rat :=
  match a, b with
  | none, b => b
  | a, none => a
  | some x, some y => some (if y < x then y else x)

structure RunOut where
  M : EM.Mat
  margin : Option Rat
  idxOk : Bool
  idxErr : Option String

/-- the loop of `EM.em`, additionally (a) running the flat index-level kernel on the CSR arrays of
the current matrix and comparing with the row-level posterior, (b) recording the threshold margin -/
def runChecked (n : Nat) (eps : Rat) (chunks : List (List EM.Occ)) : Nat → RunOut → RunOut
  | 0, st => st
  | k + 1, st =>
    let M := st.M
    let post := EM.chunkPosterior n M chunks
    let idx := EM.emIterIdx (EM.indptrOf M) (EM.indicesOf M) (EM.dataOf M) n chunks.flatten
    let (ok, err) := match idx with
      | .ok flat => (decide (flat = post.flatten), (none : Option String))
      | .error e => (false, some (toString e))
    let N := EM.normCols (EM.withData M post)
    runChecked n eps chunks k
      { M := EM.threshold eps N, margin := minOpt st.margin (EM.marginOf eps N),
        idxOk := st.idxOk && ok, idxErr := st.idxErr <|> err }

def denseGrid (nRows nCols : Nat) (D : EM.Dense) : List (List Rat) :=
  (List.range nRows).map fun r => (List.range nCols).map fun c => D r c

/-- tabulate a dense matrix on the grid (so that iterating the specification does not re-evaluate
earlier iterations cell by cell); outside the grid every matrix here is 0.  The recursion is over
the tabulated grids, so every grid is computed exactly once. -/
abbrev Grid := Array (Array Rat)

def tabGrid (nRows nCols : Nat) (D : EM.Dense) : Grid :=
  (denseGrid nRows nCols D).map List.toArray |>.toArray

def ofGrid (g : Grid) : EM.Dense := fun r c =>
  match g[r]? with
  | some row => (row[c]?).getD 0
  | none => 0

def specRunTab (nRows nCols n : Nat) (eps : Rat) (occs : List EM.Occ) : Nat → Grid → Grid
  | 0, g => g
  | k + 1, g => specRunTab nRows nCols n eps occs k (tabGrid nRows nCols (EM.specStep nRows n eps occs (ofGrid g)))

/-- `EM.spec` on the grid, tabulated after every step -/
def specTab (nRows nCols n : Nat) (eps : Rat) (nIter : Nat) (occs : List EM.Occ) (D0 : EM.Dense) : Grid :=
  let g0 := tabGrid nRows nCols D0
  if nIter > 0 ∨ eps > 0 then
    let g1 := tabGrid nRows nCols (EM.specNorm nRows (ofGrid g0))
    let g2 := tabGrid nRows nCols (EM.specThresh eps (ofGrid g1))
    specRunTab nRows nCols n eps occs nIter g2
  else g0

def handle (op : String) (j : Json) : Option (R Json) :=
  match op with
  | "em.update" => some do
    -- one call of em_update_matrix on flat CSR arrays
    let indptr ← getNats j "indptr"
    let indices ← getNats j "indices"
    let data ← getRats j "data"
    let post ← getRats j "post"
    let n ← getNat j "n"
    let o ← getOcc j
    pure <| Json.mkObj [
      ("idx", exceptJson rats (EM.emUpdateIdx indptr indices data n post o)),
      ("prefix", exceptJson rats (EM.emUpdateIdxPreFix indptr indices data n post o))]
  | "em.run" => some do
    let M0 ← getMat j "cols" "vals"
    let n ← getNat j "n"
    let eps ← getRat j "eps"
    let nIter ← getNat j "niter"
    let nCols ← getNat j "ncols"
    let chunks ← getChunks j "chunks"
    let specToo := (getBool j "spec").toOption.getD false
    let out : RunOut :=
      if nIter > 0 ∨ eps > 0 then
        let N := EM.normCols M0
        runChecked n eps chunks nIter
          { M := EM.threshold eps N, margin := EM.marginOf eps N, idxOk := true, idxErr := none }
      else { M := M0, margin := none, idxOk := true, idxErr := none }
    let M := EM.em n eps nIter chunks M0
    let specOk : Json :=
      if specToo then
        toJson (decide (tabGrid M0.length nCols (EM.toDense M)
          = specTab M0.length nCols n eps nIter chunks.flatten (EM.toDense M0)))
      else Json.null
    pure <| Json.mkObj [
      ("mat", matJson M),
      ("loopEq", toJson (decide (out.M = M))),
      ("margin", optJson ratJson out.margin),
      ("idxOk", toJson out.idxOk),
      ("idxErr", optJson Json.str out.idxErr),
      ("specOk", specOk)]
  | "em.stage" => some do
    -- one EM round from the implementation's own prior: the model's posterior (row level and flat
    -- index level), and normalise + threshold applied to the implementation's own posterior values
    let M ← getMat j "cols" "vals"
    let n ← getNat j "n"
    let eps ← getRat j "eps"
    let chunks ← getChunks j "chunks"
    let implPost ← getRats j "post"
    let post := EM.chunkPosterior n M chunks
    let idx := EM.emIterIdx (EM.indptrOf M) (EM.indicesOf M) (EM.dataOf M) n chunks.flatten
    let idxOk := match idx with
      | .ok flat => decide (flat = post.flatten)
      | .error _ => false
    -- re-shape the implementation's flat posterior like M
    let rec split : List Rat → List Nat → List (List Rat)
      | _, [] => []
      | l, k :: ks => l.take k :: split (l.drop k) ks
    let ip := split implPost (M.map List.length)
    let N := EM.normCols (EM.withData M ip)
    pure <| Json.mkObj [
      ("post", rats post.flatten),
      ("idx", exceptJson rats idx),
      ("idxOk", toJson idxOk),
      ("next", matJson (EM.threshold eps N)),
      ("margin", optJson ratJson (EM.marginOf eps N)),
      ("stepEq", toJson (decide (EM.emStep n eps chunks M = EM.threshold eps (EM.normCols (EM.withData M post)))))]
  | "em.init" => some do
    -- normalise + threshold of the n_iter = 0 matrix
    let M0 ← getMat j "cols" "vals"
    let eps ← getRat j "eps"
    let N := EM.normCols M0
    pure <| Json.mkObj [
      ("next", matJson (EM.threshold eps N)),
      ("margin", optJson ratJson (EM.marginOf eps N))]
  | "em.radius" => some do
    -- radius-table lookups window_size_array[w, token]; table built as fixed_window_radii does
    let nFreq ← getNat j "nfreq"
    let radii ← getNats j "radii"
    let qs ← getPairs j "lookups"
    let table := radii.map (EM.radiusTable nFreq)
    pure <| Json.mkObj [
      ("res", exceptJson nats (EM.radiusLookups table (qs.map fun q => (q.1.toNat, q.2.toNat))))]
  | _ => none

end Driver.EM
