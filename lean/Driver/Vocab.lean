import Driver.Util
import VecModel.Model.Vocab
/-
  Driver ops for Model/Vocab.lean (C05):
    vocab.rn      {"p":24|53, "pairs":[[c,n],…]}          -> rn p (c/n) per pair, as "num/den"
    vocab.grid    {"lo":a, "hi":b, "f32":bool}              -> per n in [a,b]: digests over c = 0..n of
                                                              freq53 (and freq32, thr32 when f32), see `digestStep`
    vocab.pairs   {"pairs":[[c,n],…]}                      -> digests of freq53, freq32, thr32 over the pairs
    vocab.div32   {"pairs":[[c,n],…]}                      -> freq32 c n, thr32 c n per pair
    vocab.prune   {"tokens":…, "counts":…, "dcounts":…, "n":…, "D":…, params…}
    vocab.learn   {"docs":…, "ngram":k?, "supplied":…?, "mask":…?, params…}
  tokens are strings ("kind":"str") or integer lists ("kind":"ints": Python ints as singletons,
  tuples as lists).
-/
open Lean VecModel
namespace Driver.Vocab

open VecModel.Vocab

/-- order-sensitive digest of a sequence of rationals (num, den), modulo the Mersenne prime 2^61-1;
the harness computes the same from `float.as_integer_ratio()` -/
def MOD : Nat := 2305843009213693951

def digestStep (h : Nat) (q : Rat) : Nat :=
  ((h * 1000003 + q.num.natAbs) % MOD * 1000003 + q.den) % MOD

def gridRow (f32 : Bool) (n : Nat) : Json :=
  let cs := List.range (n + 1)
  let d53 := cs.foldl (fun h c => digestStep h (freq53 c n)) 7
  if f32 then
    let d32 := cs.foldl (fun h c => digestStep h (freq32 c n)) 7
    let t32 := cs.foldl (fun h c => digestStep h (thr32 c n)) 7
    toJson #[n, d53, d32, t32]
  else toJson #[n, d53]

def getBound (j : Json) (k : String) : R (Option Bound) :=
  match getOpt j k with
  | none => pure none
  | some v => do
    let a ← (fromJson? v : R (Array Json))
    match a.toList with
    | [Json.str "occ", b] => do
      let b ← (fromJson? b : R Nat)
      pure (some (.occ b))
    | [Json.str "freq", f] => do
      let f ← jsonRat f
      pure (some (.freq f))
    | _ => throw s!"{k}: expected [\"occ\", n] or [\"freq\", \"num/den\"]"

def getOptNat (j : Json) (k : String) : R (Option Nat) :=
  match getOpt j k with
  | none => pure none
  | some v => do
    let n ← (fromJson? v : R Nat)
    pure (some n)

section generic
variable {τ : Type} [DecidableEq τ] [FromJson τ] [ToJson τ]

def getToks (j : Json) (k : String) : R (List τ) := do
  let a ← j.getObjValAs? (Array τ) k
  pure a.toList

def getParams (j : Json) : R (Params τ) := do
  let minB ← getBound j "min"
  let maxB ← getBound j "max"
  let minD ← getBound j "dmin"
  let maxD ← getBound j "dmax"
  let excl ← (match getOpt j "excl" with
    | none => pure []
    | some _ => getToks (τ := τ) j "excl")
  let rx ← (match getOpt j "regex_matches" with
    | none => pure []
    | some _ => getToks (τ := τ) j "regex_matches")
  let k ← getOptNat j "k"
  pure { minB, maxB, minD, maxD, excl, regex := fun t => rx.contains t, maxUnique := k }

def dictJson (d : List (τ × Nat)) : Json :=
  Json.arr (d.map fun e => Json.arr #[toJson e.1, toJson e.2]).toArray

def handlePrune (j : Json) : R Json := do
  let toks ← getToks (τ := τ) j "tokens"
  let counts ← getNats j "counts"
  let dcounts ← getNats j "dcounts"
  let n ← getNat j "n"
  let D ← getNat j "D"
  if toks.length ≠ counts.length ∨ toks.length ≠ dcounts.length then throw "tokens/counts/dcounts lengths differ"
  let P ← getParams (τ := τ) j
  let tab : List (Row τ) := (toks.zip (counts.zip dcounts))
  let before := survivors P n D tab
  let after := prune P n D tab
  pure <| Json.mkObj [
    ("before", toJson (before.map (·.1)).toArray),
    ("dict", dictJson ((after.map (·.1)).zipIdx)),
    ("freqs", rats (after.map (·.2)))]

def handleLearn (lt : τ → τ → Bool) (j : Json) : R Json := do
  let docsA ← j.getObjValAs? (Array (Array τ)) "docs"
  let docs := docsA.toList.map Array.toList
  let P ← getParams (τ := τ) j
  let mask ← (match getOpt j "mask" with
    | none => pure none
    | some v => do
      let m ← (fromJson? v : R τ)
      pure (some m))
  let supplied ← (match getOpt j "supplied" with
    | none => pure none
    | some v => do
      let a ← (fromJson? v : R (Array (τ × Nat)))
      pure (some a.toList))
  let ngram ← getOptNat j "ngram"
  let base := [
    ("table", Json.arr ((table lt docs).map fun r => Json.arr #[toJson r.1, toJson r.2.1, toJson r.2.2]).toArray),
    ("before", toJson (vocab0 lt P docs).toArray),
    ("dict", dictJson (learn lt P docs)),
    ("fitted", dictJson (fitted lt P supplied mask docs))]
  let extra := match ngram with
    | none => []
    | some n => [
        ("gram_table", Json.arr ((table (lexLt lt) (gramDocs lt P n docs)).map fun r =>
            Json.arr #[toJson r.1.toArray, toJson r.2.1, toJson r.2.2]).toArray),
        ("gram_dict", Json.arr ((learnNgram lt P n docs).map fun e =>
            Json.arr #[toJson e.1.toArray, toJson e.2]).toArray)]
  pure <| Json.mkObj (base ++ extra)

end generic

def strLt (a b : String) : Bool := decide (a < b)
def intsLt (a b : List Int) : Bool := lexLt (fun (x y : Int) => decide (x < y)) a b

instance : FromJson (List Int) := ⟨fun j => do
  let a ← (fromJson? j : Except String (Array Int))
  pure a.toList⟩
instance : ToJson (List Int) := ⟨fun l => toJson l.toArray⟩

def handle (op : String) (j : Json) : Option (R Json) :=
  match op with
  | "vocab.rn" => some do
    let p ← getNat j "p"
    let pairs ← j.getObjValAs? (Array (Array Nat)) "pairs"
    let out ← pairs.toList.mapM fun a => match a.toList with
      | [c, n] => if n = 0 then throw "n = 0" else pure (rn p (mkRat c n))
      | _ => throw "pairs: expected [c, n]"
    pure <| Json.mkObj [("rn", rats out)]
  | "vocab.div32" => some do
    let pairs ← j.getObjValAs? (Array (Array Nat)) "pairs"
    let out ← pairs.toList.mapM fun a => match a.toList with
      | [c, n] => if n = 0 then throw "n = 0" else pure (Json.arr #[ratJson (freq32 c n), ratJson (thr32 c n)])
      | _ => throw "pairs: expected [c, n]"
    pure <| Json.mkObj [("r", Json.arr out.toArray)]
  | "vocab.pairs" => some do
    let pairs ← j.getObjValAs? (Array (Array Nat)) "pairs"
    let ps ← pairs.toList.mapM fun a => match a.toList with
      | [c, n] => if n = 0 then throw "n = 0" else pure (c, n)
      | _ => throw "pairs: expected [c, n]"
    let t53 := Task.spawn fun _ => ps.foldl (fun h (c, n) => digestStep h (freq53 c n)) 7
    let t32 := Task.spawn fun _ => ps.foldl (fun h (c, n) => digestStep h (freq32 c n)) 7
    let tt := Task.spawn fun _ => ps.foldl (fun h (c, n) => digestStep h (thr32 c n)) 7
    pure <| Json.mkObj [("d53", toJson t53.get), ("d32", toJson t32.get), ("t32", toJson tt.get)]
  | "vocab.grid" => some do
    let lo ← getNat j "lo"
    let hi ← getNat j "hi"
    if lo = 0 then throw "lo = 0"
    let f32 ← getBool j "f32"
    -- one task per total: the rows are independent
    let tasks := (List.range (hi + 1 - lo)).map fun i => Task.spawn fun _ => gridRow f32 (lo + i)
    pure <| Json.mkObj [("rows", Json.arr (tasks.map Task.get).toArray)]
  | "vocab.prune" => some do
    match (← getStr j "kind") with
    | "str" => handlePrune (τ := String) j
    | "ints" => handlePrune (τ := List Int) j
    | k => throw s!"kind {k}"
  | "vocab.learn" => some do
    match (← getStr j "kind") with
    | "str" => handleLearn (τ := String) strLt j
    | "ints" => handleLearn (τ := List Int) intsLt j
    | k => throw s!"kind {k}"
  | _ => none

end Driver.Vocab
