import Driver.Util
import VecModel.Model.Coo
/-
  coo.run     : index-level model on an operation sequence, state reports at checkpoints
  coo.refine  : index-level vs run-level model, step by step
  coo.exhaust : the same on every append sequence of a small scope (+ finalize, vs canon)
  coo.chunks  : _generate_chunk_boundaries
  ops are integer lists: [0,row,col,val,key] append · [1] coo_sum_duplicates ·
  [2] merge_all_sum_duplicates · [3] both (the kernels' finalisation)
-/
open Lean VecModel VecModel.Coo
namespace Driver.Coo

def entryJson (e : Entry) : Json := ints [e.key, e.row, e.col, e.val]
def entriesJson (l : List Entry) : Json := Json.arr (l.map entryJson).toArray

inductive Op where
  | app (e : Entry) | sum | mall | fin

def parseOp : List Int → R Op
  | [0, r, c, v, k] => pure (.app ⟨r, c, v, k⟩)
  | [1] => pure .sum
  | [2] => pure .mall
  | [3] => pure .fin
  | _ => throw "bad op"

def stepIdx (lim : Nat) (c : Coo) : Op → Except Err Coo
  | .app e => append lim c e
  | .sum => sumDuplicates c
  | .mall => mergeAll c
  | .fin => finalize c

def stepRuns (lim : Nat) (s : Runs.St) : Op → Runs.St
  | .app e => Runs.append lim s e
  | .sum => Runs.round s
  | .mall => Runs.mergeAll s
  | .fin => Runs.finalize s

def stateJson (i : Nat) (c : Coo) (raw : Bool) : Json :=
  Json.mkObj ([("i", toJson i), ("abs", entriesJson (canon (live c))), ("ind", toJson c.ind),
    ("depth", toJson c.depth), ("cap", toJson c.buf.size), ("mcap", toJson c.mins.size)] ++
    (if raw then [("mins", ints c.mins.toList), ("live", entriesJson (live c))] else []))

def runOps (lim every : Nat) (raw : Bool) : List Op → Nat → Coo → List Json → List Json × Option (Nat × Err)
  | [], i, c, acc => ((if every = 0 ∨ i % every ≠ 0 ∨ i = 0 then stateJson i c raw :: acc else acc).reverse, none)
  | op :: ops, i, c, acc =>
    match stepIdx lim c op with
    | .error e => (acc.reverse, some (i, e))
    | .ok c' =>
      let acc' := if every ≠ 0 ∧ (i + 1) % every = 0 then stateJson (i + 1) c' raw :: acc else acc
      runOps lim every raw ops (i + 1) c' acc'

/-- agreement of the two models on one state -/
def agree (c : Coo) (s : Runs.St) : Option String :=
  if live c ≠ Runs.live s then some "live entries differ"
  else if c.ind ≠ Runs.ind s then some "ind differs"
  else if c.depth ≠ s.levels.length then some "depth differs"
  else if c.buf.size ≠ s.cap then some "capacity differs"
  else if c.mins.size ≠ s.mcap then some "min size differs"
  else if c.mins.toList.take c.depth ≠ Runs.minsOf s.levels then some "min[:depth] differs"
  else if (c.mins.toList.drop c.depth).any (· ≠ 0) then some "min beyond depth not zero"
  else none

def refineOps (lim : Nat) : List Op → Nat → Coo → Runs.St → Except String Nat
  | [], i, _, _ => .ok i
  | op :: ops, i, c, s =>
    match stepIdx lim c op with
    | .error e => .error s!"step {i}: index-level model fails: {e}"
    | .ok c' =>
      let s' := stepRuns lim s op
      match agree c' s' with
      | some w => .error s!"step {i}: {w}"
      | none => refineOps lim ops (i + 1) c' s'

/-- all key sequences of length `n` over `0..k-1` -/
def seqs (k : Nat) : Nat → List (List Nat)
  | 0 => [[]]
  | n + 1 => (seqs k n).flatMap fun s => (List.range k).map fun x => x :: s

def exhaust (maxcap : Nat) (lims : List Nat) (nkeys len : Nat) : Nat × Option String := Id.run do
  let mut count := 0
  for cap in List.range (maxcap + 1) do
    if cap < 2 then continue
    for lim in lims do
      for ks in seqs nkeys len do
        let es : List Entry := ks.map fun (k : Nat) => ⟨(k : Int), 2 * (k : Int) + 1, 1, (k : Int)⟩
        let ops := es.map Op.app ++ [Op.fin]
        count := count + 1
        match mk cap with
        | .error e => return (count, some s!"cap {cap}: {e}")
        | .ok c0 =>
          match refineOps lim ops 0 c0 (Runs.mk cap) with
          | .error w => return (count, some s!"cap {cap} lim {lim} keys {ks}: {w}")
          | .ok _ =>
            match build lim cap es with
            | .error e => return (count, some s!"cap {cap} lim {lim} keys {ks}: build fails {e}")
            | .ok out =>
              if out ≠ canon es then
                return (count, some s!"cap {cap} lim {lim} keys {ks}: build ≠ canon")
  return (count, none)

def handle (op : String) (j : Json) : Option (R Json) :=
  match op with
  | "coo.run" => some do
    let cap ← getNat j "cap"
    let lim ← getNat j "lim"
    let every := (getNat j "every").toOption.getD 1
    let raw := (getBool j "raw").toOption.getD false
    let ops ← (← getIntss j "ops").mapM parseOp
    match mk cap with
    | .error e => pure <| Json.mkObj [("states", Json.arr #[]), ("err", Json.str (toString e)), ("err_at", toJson (0 : Nat))]
    | .ok c0 =>
      let (states, err) := runOps lim every raw ops 0 c0 []
      pure <| Json.mkObj [("states", Json.arr states.toArray),
        ("err", match err with | some (_, e) => Json.str (toString e) | none => Json.null),
        ("err_at", match err with | some (i, _) => toJson i | none => Json.null)]
  | "coo.refine" => some do
    let cap ← getNat j "cap"
    let lim ← getNat j "lim"
    let ops ← (← getIntss j "ops").mapM parseOp
    match mk cap with
    | .error e => pure <| Json.mkObj [("ok", toJson false), ("what", Json.str (toString e))]
    | .ok c0 =>
      match refineOps lim ops 0 c0 (Runs.mk cap) with
      | .ok n => pure <| Json.mkObj [("ok", toJson true), ("steps", toJson n)]
      | .error w => pure <| Json.mkObj [("ok", toJson false), ("what", Json.str w)]
  | "coo.exhaust" => some do
    let maxcap ← getNat j "maxcap"
    let lims ← getNats j "lims"
    let nkeys ← getNat j "nkeys"
    let len ← getNat j "len"
    let (n, bad) := exhaust maxcap lims nkeys len
    pure <| Json.mkObj [("cases", toJson n), ("bad", match bad with | some w => Json.str w | none => Json.null)]
  | "coo.chunks" => some do
    let sizes ← getNats j "sizes"
    let n ← getNat j "n"
    if n = 0 then throw "n = 0"
    pure <| Json.mkObj [("chunks", Json.arr ((chunkBoundaries sizes n).map (fun (a, b) => nats [a, b])).toArray)]
  | _ => none

end Driver.Coo
