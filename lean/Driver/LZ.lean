import Driver.Util
import VecModel.Model.LZ
open Lean VecModel
namespace Driver.LZ

def getNatss (j : Json) (k : String) : R (List (List Nat)) := do
  let a ← j.getObjValAs? (Array (Array Nat)) k
  pure (a.toList.map Array.toList)

def natss (l : List (List Nat)) : Json := toJson (l.map List.toArray).toArray

def entriesJson (l : List (Nat × Nat)) : Json := natss (l.map fun p => [p.1, p.2])

def dictJson {κ : Type} (kj : κ → Json) (d : LZ.Dict κ) : Json :=
  Json.arr (d.map fun kv => Json.arr #[kj kv.1, toJson kv.2]).toArray

/-- everything the harness compares, generically in the key type -/
def run {κ : Type} [DecidableEq κ] (kj : κ → Json) (h : List Nat → κ) (cap : Nat) (base : LZ.Dict κ)
    (X Xt : List (List Nat)) : Json :=
  let encs := (X ++ Xt).map (LZ.encode h cap base)
  let specs := (X ++ Xt).map (LZ.parse h cap base)
  let fit := LZ.fitTransform h cap base X
  let a := LZ.fitAsm h cap base X
  let cols := a.cols
  let tr (Y : List (List Nat)) := exceptJson (fun rows => Json.arr (rows.map entriesJson).toArray)
    (LZ.transform h cap base cols Y)
  Json.mkObj [
    ("enc", Json.arr (encs.map (dictJson kj)).toArray),
    ("spec_eq", toJson (decide ((encs.map fun d => d.map fun kv => (kv.1, kv.2)) = specs))),
    ("skipped", toJson ((X ++ Xt).map (LZ.skipped h cap base)).toArray),
    ("fit", exceptJson (fun r => Json.mkObj [
        ("rows", Json.arr (r.1.map entriesJson).toArray),
        ("cols", dictJson kj r.2)]) fit),
    ("fit_indptr", toJson a.indptr.toArray),
    ("tr", tr X),
    ("trt", tr Xt),
    ("trt_indptr", toJson (LZ.transAsm h cap base cols Xt).indptr.toArray)]

def handle (op : String) (j : Json) : Option (R Json) :=
  match op with
  | "lz.murmur" => some do
    let keys ← getNatss j "keys"
    let seed ← getNat j "seed"
    pure <| Json.mkObj [("h", toJson (keys.map fun k => LZ.murmur k seed).toArray)]
  | "lz.run" => some do
    let X ← getNatss j "X"
    let Xt ← getNatss j "Xt"
    let cap ← getNat j "cap"
    match getOpt j "hash" with
    | none =>
      -- identity hash: keys are the phrases themselves; base = [[phrase, count], ...]
      let b ← j.getObjValAs? (Array (Array Nat × Nat)) "base"
      let base : LZ.Dict (List Nat) := b.toList.map fun p => (p.1.toList, p.2)
      pure (run (fun k => toJson k.toArray) id cap base X Xt)
    | some hj =>
      let seed ← getNat hj "seed"
      let size ← getNat hj "size"
      if size = 0 then throw "hash size 0"
      let b ← j.getObjValAs? (Array (Nat × Nat)) "base"
      pure (run (fun (k : Nat) => toJson k) (LZ.hashOf seed size) cap b.toList X Xt)
  | _ => none

end Driver.LZ
