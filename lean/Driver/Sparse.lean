import Driver.Util
import VecModel.Model.Sparse
open Lean VecModel
namespace Driver.Sparse

def matrixJson (M : Sparse.Matrix) : Json :=
  let rows := (List.range M.nRows).map fun i =>
    let cols := (M.entries.filter (fun e => e.1 == i)).map (·.2.1) |>.eraseDups
    Json.arr ((cols.map fun j => Json.arr #[toJson j, ratJson (M.get i j)]).toArray)
  Json.mkObj [("nRows", toJson M.nRows), ("nCols", toJson M.nCols), ("rows", Json.arr rows.toArray)]

def resultJson : Except Err Sparse.Matrix → Json
  | .ok M => matrixJson M
  | .error e => Json.mkObj [("err", Json.str (toString e))]

def getItems (j : Json) (k : String) : R (List (List (String × Rat))) := do
  let a ← j.getObjValAs? (Array (Array (Array Json))) k
  a.toList.mapM fun item => item.toList.mapM fun fw =>
    match fw.toList with
    | [f, w] => do
      let f ← f.getStr?
      let w ← jsonRat w
      pure (f, w)
    | _ => throw "item: expected [feature, weight]"

def getLookup (j : Json) (k : String) : R (List (String × Nat)) := do
  let a ← j.getObjValAs? (Array (Array Json)) k
  a.toList.mapM fun kv =>
    match kv.toList with
    | [f, c] => do
      let f ← f.getStr?
      let c ← c.getNat?
      pure (f, c)
    | _ => throw "lookup: expected [feature, column]"

def handle (op : String) (j : Json) : Option (R Json) :=
  match op with
  | "sparse.transform" => some do
    let lk ← getLookup j "lookup"
    let width ← getNat j "width"
    let items ← getItems j "items"
    let lookup : String → Option Nat := fun f => (lk.find? (·.1 == f)).map (·.2)
    let pinned := Sparse.transform lookup width items
    let inferred := Sparse.transformInferred lookup items
    let rowsView := Sparse.transformRows lookup width items
    match pinned with
    | .ok M =>
      -- the dense row view must agree with the triplet view (checked here on every request)
      let agree := (List.range M.nRows).all fun i =>
        (List.range M.nCols).all fun c => (rowsView.getD i []).getD c 0 == M.get i c
      pure <| (matrixJson M).mergeObj (Json.mkObj [
        ("rowsViewAgrees", toJson agree),
        ("inferred", match inferred with
          | .ok Mi => Json.arr #[toJson Mi.nRows, toJson Mi.nCols]
          | .error _ => Json.null)])
    | .error e => pure <| Json.mkObj [("err", Json.str (toString e))]
  | "sparse.assemble" => some do
    let shape ← getNats j "shape"
    let es ← j.getObjValAs? (Array (Array Json)) "entries"
    let es ← es.toList.mapM fun e =>
      match e.toList with
      | [r, c, v] => do
        let r ← r.getNat?
        let c ← c.getNat?
        let v ← jsonRat v
        pure (r, c, v)
      | _ => throw "entry: expected [row, col, value]"
    match shape with
    | [nr, nc] => pure (resultJson (Sparse.assemble (some (nr, nc)) es))
    | [] => pure (resultJson (Sparse.assemble none es))
    | _ => throw "shape: expected [rows, cols] or []"
  | "sparse.assign" => some do
    let rows ← getItems j "rows"
    let r := Sparse.assignRows ([] : List (String × Nat)) rows
    let viaLookup := rows.map (Sparse.rowEntries (Sparse.lookupD r.1))
    pure <| Json.mkObj [
      ("dict", Json.arr (r.1.map fun kv => Json.arr #[Json.str kv.1, toJson kv.2]).toArray),
      ("rows", Json.arr (r.2.map fun row =>
        Json.arr (row.map fun cw => Json.arr #[toJson cw.1, ratJson cw.2]).toArray).toArray),
      ("assign_eq_lookup", toJson (r.2 == viaLookup))]
  | "sparse.blockwise" => some do
    let b ← getNat j "b"
    let l ← getInts j "l"
    pure <| Json.mkObj [
      ("blocks", intss (Sparse.blocks b (l.length / b + 1) l)),
      ("flat", ints (Sparse.blockwise b id l))]
  | _ => none

end Driver.Sparse
