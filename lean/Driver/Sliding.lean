import Driver.Util
import VecModel.Model.Sliding
open Lean VecModel
namespace Driver.Sliding

def getSample (j : Json) : R Sliding.Sample := do
  let k ← getStr j "kind"
  match k with
  | "all" => pure .all
  | "every" => pure (.every (← getInt j "n"))
  | "pair" => pure (.pair (← getInt j "a") (← getInt j "m"))
  | "idx" => pure (.idx (← getInts j "l"))
  | _ => throw s!"bad sample kind {k}"

def getKernel (j : Json) : R Sliding.KSpec := do
  let k ← getStr j "k"
  match k with
  | "average" => pure .average
  | "differences" => pure (.differences (← getNat j "start") (← getNat j "step") (← getNat j "stride"))
  | "weight" => pure (.weight (← getRats j "w"))
  | "matrix" => pure (.matrix (← getRatss j "m"))
  | _ => throw s!"bad kernel {k}"

def bufJson (b : Sliding.Buf) : Json :=
  Json.arr (b.map fun row => Json.arr (row.map (optJson ratJson)).toArray).toArray

/-- the columns must all have length `L` (a numpy array is rectangular) -/
def getCols (j : Json) : R (List Sliding.Col × Nat) := do
  let cols ← getRatss j "cols"
  let L ← getNat j "L"
  if cols.any (fun c => c.length != L) then throw "cols: not rectangular"
  pure (cols, L)

def handle (op : String) (j : Json) : Option (R Json) :=
  match op with
  | "sw.transform" => some do
    let (cols, L) ← getCols j
    let w ← getNat j "w"
    let s ← getNat j "s"
    let sample ← getSample (← j.getObjVal? "sample")
    let ks ← (← j.getObjValAs? (Array Json) "kernels").toList.mapM getKernel
    let p ← getNat j "p"
    let v ← getRat j "v"
    let idx := Sliding.sampleIdx w sample
    let K := idx.bind fun i => Sliding.buildKernel ks i.length
    pure <| Json.mkObj [
      ("idx", exceptJson ints idx),
      ("K", exceptJson ratss K),
      ("out", exceptJson bufJson (Sliding.transformer cols L w s sample ks p v)),
      ("nwindows", toJson (Sliding.nWindows (if p > 0 then 2 * p + L else L) w s))]
  | "sw.seqdiff" => some do
    let (cols, L) ← getCols j
    let stride ← getNat j "stride"
    pure <| Json.mkObj [("out", exceptJson bufJson (Sliding.seqDiff cols L stride))]
  | _ => none

end Driver.Sliding
