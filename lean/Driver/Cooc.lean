import Driver.Util
import VecModel.Model.Cooc
/- JSON ops of the window / preprocessing / co-occurrence models (C03, C14). -/
open Lean VecModel VecModel.Window VecModel.Cooc
namespace Driver.Cooc

def getOptNat (j : Json) (k : String) : R (Option Nat) :=
  match getOpt j k with
  | none => pure none
  | some v => do let n ← (fromJson? v : Except String Nat); pure (some n)

/-- `p ^ e` for an integer-valued rational exponent -/
def ratPowInt (p e : Rat) : Option Rat :=
  if e.den = 1 then
    if e.num ≥ 0 then some (p ^ e.num.toNat)
    else if p = 0 then none else some ((1 / p) ^ (-e.num).toNat)
  else none

structure BlockJ where
  block : Block
  table : List Nat
  kernel : String
  power : Rat
  delta : Rat

def parseBlock (j : Json) : R BlockJ := do
  let rev ← getBool j "rev"
  let mix ← getRat j "mix"
  let mask ← getOptNat j "mask"
  let normalize ← getBool j "normalize"
  let offset ← getNat j "offset"
  let table ← getNats j "radii"
  let kernel ← getStr j "kernel"
  let power ← (match getOpt j "power" with | some v => jsonRat v | none => pure (9 / 10 : Rat))
  let delta ← (match getOpt j "delta" with | some v => jsonRat v | none => pure (1 : Rat))
  let w : Nat → Rat → Rat ← match kernel with
    | "flat" => pure fun _ _ => (1 : Rat)
    | "harmonic" => pure fun k _ => Kernel.base .harmonic k
    | "geometric" => pure fun k _ => Kernel.base (.geometric power) k
    | "tflat" => pure fun _ _ => (1 : Rat)
    | "tgeometric" =>
      if delta = 0 then throw "delta = 0"
      else pure fun _ dt => match ratPowInt power (dt / delta) with
        | some v => v
        | none => 0   -- excluded beforehand by `timesOK`
    | "mflat" => pure fun _ _ => (1 : Rat)
    | "mgeometric" => pure fun k _ => power ^ k
    | _ => throw s!"unknown kernel {kernel}"
  pure { block := { rev := rev, mix := mix, args := { mask := mask, normalize := normalize, offset := offset },
                    radius := radiusOf table, w := w },
         table := table, kernel := kernel, power := power, delta := delta }

def parseCfg (j : Json) : R (Cfg × List BlockJ) := do
  let n ← getNat j "n"
  let nw ← getBool j "nw"
  let bs ← j.getObjValAs? (Array Json) "blocks"
  let bjs ← bs.toList.mapM parseBlock
  pure ({ n := n, blocks := bjs.map (·.block), normWin := nw }, bjs)

/-- timed geometric kernels are evaluated exactly only for integer exponents -/
def timesOK (bjs : List BlockJ) (S : List TSeq) : Bool :=
  bjs.all fun b =>
    b.kernel != "tgeometric" ||
      (S.all fun s => s.all fun p => (p.2 / b.delta).den == 1) && (b.power != 0 || decide (b.delta > 0))

def cellsJson (es : List Event) : Json :=
  let keys := (es.map fun e => (e.1, e.2.1)).eraseDups
  Json.arr (keys.map fun k =>
    Json.arr #[toJson k.1, toJson k.2, ratJson (cellSum es k.1 k.2)]).toArray

/-- a declaratively given matrix `f` tabulated over `rows × cols` -/
def specTable (rows cols : List Nat) (f : Nat → Nat → Rat) : List (Nat × Nat × Rat) :=
  rows.flatMap fun r => cols.map fun c => (r, c, f r c)

/-- the non-zero cells of the table -/
def specCellsJson (tb : List (Nat × Nat × Rat)) : Json :=
  Json.arr ((tb.filterMap fun e =>
    if e.2.2 = 0 then none else some (Json.arr #[toJson e.1, toJson e.2.1, ratJson e.2.2])).toArray)

/-- does the accumulated event matrix equal the tabulated definition on `rows × cols`, and does no
event fall outside? -/
def specAgrees (es : List Event) (rows cols : List Nat) (tb : List (Nat × Nat × Rat)) : Bool :=
  (tb.all fun e => cellSum es e.1 e.2.1 == e.2.2) &&
    es.all fun e => rows.contains e.1 && cols.contains e.2.1

def getBoolD (j : Json) (k : String) (d : Bool) : R Bool :=
  match getOpt j k with
  | some v => (fromJson? v : Except String Bool)
  | none => pure d

def parseTSeqs (j : Json) (k : String) : R (List TSeq) := do
  let a ← j.getObjValAs? (Array (Array (Array Json))) k
  a.toList.mapM fun s => s.toList.mapM fun p =>
    match p.toList with
    | [t, x] => do
      let t ← (fromJson? t : Except String Nat)
      let x ← jsonRat x
      pure (t, x)
    | _ => throw "expected [token, time]"

def getNatss (j : Json) (k : String) : R (List (List Nat)) := do
  let a ← j.getObjValAs? (Array (Array Nat)) k
  pure (a.toList.map Array.toList)

def getNatsss (j : Json) (k : String) : R (List (List (List Nat))) := do
  let a ← j.getObjValAs? (Array (Array (Array Nat))) k
  pure (a.toList.map fun d => d.toList.map Array.toList)

def parseDict (j : Json) (k : String) : R Pre.Dict := do
  let a ← getNatss j k
  a.mapM fun l => match l with
    | [t, i] => pure (t, i)
    | _ => throw s!"{k}: expected [token, index]"

def dictJson (d : Pre.Dict) : Json := Json.arr (d.map fun e => Json.arr #[toJson e.1, toJson e.2]).toArray

def natss (l : List (List Nat)) : Json := toJson (l.map List.toArray).toArray

def errJson (e : Err) : Json := Json.mkObj [("err", Json.str (toString e))]

def handle (op : String) (j : Json) : Option (R Json) :=
  match op with
  | "win.at" => some do
    let s ← getNats j "s"
    let r ← getNat j "r"
    let i ← getNat j "i"
    let rev ← getBool j "rev"
    pure <| Json.mkObj [("win", nats (windowAt s r i rev))]
  | "win.fixed" => some do
    let w ← getNat j "w"
    let nf ← getNat j "nfreq"
    let mask ← getOptNat j "mask"
    pure <| exceptJson nats (fixedRadii w nf mask)
  | "win.kernel" => some do
    let kernel ← getStr j "kernel"
    let power ← (match getOpt j "power" with | some v => jsonRat v | none => pure (9 / 10 : Rat))
    let win ← getNats j "win"
    let mask ← getOptNat j "mask"
    let normalize ← getBool j "normalize"
    let offset ← getNat j "offset"
    let a : KArgs := { mask := mask, normalize := normalize, offset := offset }
    match kernel with
    | "flat" => pure <| Json.mkObj [("ker", rats (kernelW (Kernel.base .flat) a win))]
    | "harmonic" => pure <| Json.mkObj [("ker", rats (kernelW (Kernel.base .harmonic) a win))]
    | "geometric" => pure <| Json.mkObj [("ker", rats (kernelW (Kernel.base (.geometric power)) a win))]
    | _ => throw s!"unknown kernel {kernel}"
  | "win.multikernel" => some do
    let kernel ← getStr j "kernel"
    let power ← (match getOpt j "power" with | some v => jsonRat v | none => pure (9 / 10 : Rat))
    let msets ← getNatss j "msets"
    let target ← getNat j "target"
    let mask ← getOptNat j "mask"
    let normalize ← getBool j "normalize"
    let offset ← getNat j "offset"
    let a : KArgs := { mask := mask, normalize := normalize, offset := offset }
    match kernel with
    | "mflat" => pure <| exceptJson rats (multiKernelW (fun _ => 1) a msets target)
    | "mgeometric" => pure <| exceptJson rats (multiKernelW (fun k => power ^ k) a msets target)
    | _ => throw s!"unknown kernel {kernel}"
  | "pre.token" => some do
    let d ← parseDict j "dict"
    let mask ← getOptNat j "mask"
    let X ← getNatss j "seqs"
    let r := Pre.preprocess d mask X
    pure <| Json.mkObj [("seqs", natss r.1), ("dict", dictJson r.2),
      ("counts", nats (Pre.countTable d X.flatten))]
  | "pre.multi" => some do
    let d ← parseDict j "dict"
    let mask ← getOptNat j "mask"
    let X ← getNatsss j "docs"
    let r := Pre.preprocessMulti d mask X
    pure <| Json.mkObj [("docs", Json.arr (r.1.map natss).toArray), ("dict", dictJson r.2)]
  | "cooc.seq" => some do
    let (cfg, bjs) ← parseCfg j
    let S ← parseTSeqs j "seqs"
    let wantSpec ← (match getOpt j "spec" with | some v => (fromJson? v : Except String Bool) | none => pure false)
    let nrows ← getNat j "nrows"
    if !timesOK bjs S then throw "non-integer exponent for the timed geometric kernel"
    match tablesCover (bjs.map (·.table)) (S.flatten.map (·.1)) with
    | .error e => pure (errJson e)
    | .ok _ =>
      let es := seqEvents cfg S
      let rows := List.range nrows
      let cols := List.range (cfg.n * cfg.blocks.length)
      let tb := if wantSpec then specTable rows cols (spec cfg S) else []
      let specOK : Json := if wantSpec then toJson (tb.all fun e => cellSum es e.1 e.2.1 == e.2.2) else Json.null
      let specCells : Json := if wantSpec then specCellsJson tb else Json.null
      pure <| Json.mkObj [("cells", cellsJson es), ("spec_ok", specOK), ("spec_cells", specCells),
        ("events", toJson es.length)]
  | "cooc.ngram" => some do
    let (cfg, bjs) ← parseCfg j
    let S ← getNatss j "seqs"
    let nsize ← getNat j "nsize"
    let nd ← j.getObjValAs? (Array (Array Nat × Nat)) "ndict"
    let nd : NgramDict := nd.toList.map fun e => (e.1.toList, e.2)
    if nsize = 0 then throw "nsize = 0"
    let wantSpec ← getBoolD j "spec" false
    match tablesCover (bjs.map (·.table)) (nd.map (·.2)) with
    | .error e => pure (errJson e)
    | .ok _ =>
      let es := ngramEvents cfg nd nsize S
      -- the declarative definition `specNgram` (theorem `ngram_events_eq_spec`), cell by cell
      let rows := (nd.map (·.2)).eraseDups
      let cols := List.range (cfg.n * cfg.blocks.length)
      let tb := if wantSpec then specTable rows cols (specNgram cfg nd nsize S) else []
      pure <| Json.mkObj [("cells", cellsJson es),
        ("spec_cells", if wantSpec then specCellsJson tb else Json.null),
        ("spec_ok", if wantSpec then toJson (specAgrees es rows cols tb) else Json.null)]
  | "cooc.multi" => some do
    let (cfg, bjs) ← parseCfg j
    let docs ← getNatsss j "docs"
    let mask := match bjs with
      | b :: _ => b.block.args.mask
      | [] => none
    let wantSpec ← getBoolD j "spec" false
    match tablesCover (bjs.map (·.table)) docs.flatten.flatten with
    | .error e => pure (errJson e)
    | .ok _ =>
      match multiEvents cfg mask docs with
      | .error e => pure (errJson e)
      | .ok es =>
        -- the declarative definition `specMulti` (theorem `multi_events_eq_spec`), cell by cell
        let rows := List.range cfg.n
        let cols := List.range (cfg.n * cfg.blocks.length)
        let tb := if wantSpec then specTable rows cols (specMulti cfg mask docs) else []
        pure <| Json.mkObj [("cells", cellsJson es),
          ("spec_cells", if wantSpec then specCellsJson tb else Json.null),
          ("spec_ok", if wantSpec then toJson (specAgrees es rows cols tb) else Json.null)]
  | "cooc.labels" => some do
    let os ← j.getObjValAs? (Array String) "orients"
    let n ← getNat j "n"
    let os ← os.toList.mapM fun s => match s with
      | "before" => pure Orient.before
      | "after" => pure Orient.after
      | "directional" => pure Orient.directional
      | _ => throw s!"bad orientation {s}"
    pure <| Json.mkObj [
      ("rev", toJson (expand os).toArray),
      ("labels", Json.arr ((columnLabels os n).map fun l =>
        Json.arr #[toJson l.1, toJson l.2.1, toJson l.2.2]).toArray)]
  | _ => none

end Driver.Cooc
