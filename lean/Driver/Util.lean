import Lean.Data.Json
import VecModel.Model.Basic
/- JSON helpers for the line-protocol driver. -/
open Lean
namespace Driver

abbrev R := Except String

def getInt (j : Json) (k : String) : R Int := j.getObjValAs? Int k
def getNat (j : Json) (k : String) : R Nat := j.getObjValAs? Nat k
def getStr (j : Json) (k : String) : R String := j.getObjValAs? String k
def getBool (j : Json) (k : String) : R Bool := j.getObjValAs? Bool k
def getInts (j : Json) (k : String) : R (List Int) := do
  let a ← j.getObjValAs? (Array Int) k
  pure a.toList
def getNats (j : Json) (k : String) : R (List Nat) := do
  let a ← j.getObjValAs? (Array Nat) k
  pure a.toList
def getIntss (j : Json) (k : String) : R (List (List Int)) := do
  let a ← j.getObjValAs? (Array (Array Int)) k
  pure (a.toList.map Array.toList)
def getPairs (j : Json) (k : String) : R (List (Int × Int)) := do
  let a ← getIntss j k
  a.mapM fun l => match l with
    | [x, y] => pure (x, y)
    | _ => throw s!"{k}: expected pairs"
def getOpt (j : Json) (k : String) : Option Json :=
  match j.getObjVal? k with
  | .ok Json.null => none
  | .ok v => some v
  | .error _ => none

/-- rationals travel as "num/den" strings (or plain integers) -/
def parseRat (s : String) : R Rat :=
  match s.splitOn "/" with
  | [n] => match n.toInt? with
    | some n => pure (n : Rat)
    | none => throw s!"bad rat {s}"
  | [n, d] => match n.toInt?, d.toNat? with
    | some n, some d => if d = 0 then throw s!"bad rat {s}" else pure (mkRat n d)
    | _, _ => throw s!"bad rat {s}"
  | _ => throw s!"bad rat {s}"

def ratJson (q : Rat) : Json := Json.str s!"{q.num}/{q.den}"

def jsonRat (j : Json) : R Rat :=
  match j with
  | .str s => parseRat s
  | .num n => if n.exponent = 0 then pure (n.mantissa : Rat) else throw "non-integer number; send rationals as strings"
  | _ => throw "bad rat json"

def getRat (j : Json) (k : String) : R Rat := do
  jsonRat (← j.getObjVal? k)

def getRats (j : Json) (k : String) : R (List Rat) := do
  let a ← j.getObjValAs? (Array Json) k
  a.toList.mapM jsonRat

def getRatss (j : Json) (k : String) : R (List (List Rat)) := do
  let a ← j.getObjValAs? (Array (Array Json)) k
  a.toList.mapM fun r => r.toList.mapM jsonRat

def ints (l : List Int) : Json := toJson l.toArray
def nats (l : List Nat) : Json := toJson l.toArray
def intss (l : List (List Int)) : Json := toJson (l.map List.toArray).toArray
def rats (l : List Rat) : Json := Json.arr (l.map ratJson).toArray
def ratss (l : List (List Rat)) : Json := Json.arr (l.map rats).toArray
def pairsJson (l : List (Int × Int)) : Json := intss (l.map fun p => [p.1, p.2])

def exceptJson (f : α → Json) : Except VecModel.Err α → Json
  | .ok a => Json.mkObj [("ok", f a)]
  | .error e => Json.mkObj [("err", Json.str (toString e))]

def optJson (f : α → Json) : Option α → Json
  | some a => f a
  | none => Json.null

end Driver
