import Driver.Util
import VecModel.Model.Histogram
/- ops "hist.fit" (bins from breaks + per-sequence counts) and "kde.rows" (Float instance of the KDE formula) -/
open Lean VecModel
namespace Driver.Histogram
open VecModel.Hist

def parseB (s : String) : R B :=
  if s == "inf" then pure .pinf
  else if s == "-inf" then pure .ninf
  else do pure (.fin (← parseRat s))

def getB (j : Json) (k : String) : R B := do parseB (← getStr j k)

def bJson : B → Json
  | .ninf => Json.str "-inf"
  | .pinf => Json.str "inf"
  | .fin q => ratJson q

def binsJson (bs : List Bin) : Json :=
  Json.arr (bs.map fun b => Json.arr #[bJson b.lo, bJson b.hi]).toArray

instance : NatCast Float := ⟨Nat.toFloat⟩

/-- exact for doubles: numerator and denominator (a power of two) of a double are representable -/
def ratToFloat (q : Rat) : Float := Float.ofInt q.num / Float.ofNat q.den

def pi : Float := 3.141592653589793

/-- sklearn's kernel shapes (normalised for bandwidth 1) -/
def kernelFloat (name : String) : Option (Float → Float) :=
  match name with
  | "gaussian" => some fun u => Float.exp (-(u * u) / 2) / Float.sqrt (2 * pi)
  | "tophat" => some fun u => if u.abs < 1 then 0.5 else 0
  | "epanechnikov" => some fun u => if u.abs < 1 then 0.75 * (1 - u * u) else 0
  | "exponential" => some fun u => 0.5 * Float.exp (-u.abs)
  | "linear" => some fun u => if u.abs < 1 then 1 - u.abs else 0
  | "cosine" => some fun u => if u.abs < 1 then pi / 4 * Float.cos (pi * u / 2) else 0
  | _ => none

def handle (op : String) (j : Json) : Option (R Json) :=
  match op with
  | "hist.fit" => some do
    let breaks ← getRats j "breaks"
    let lo ← getB j "lo"
    let hi ← getB j "hi"
    let outlier ← getBool j "outlier"
    let seqs ← getRatss j "seqs"
    match Hist.fit breaks lo hi outlier with
    | .error e => pure <| Json.mkObj [("err", Json.str (toString e))]
    | .ok bins =>
      pure <| Json.mkObj [("ok", Json.mkObj [
        ("bins", binsJson bins),
        ("rows", toJson ((seqs.map fun s => (Hist.counts bins s).toArray).toArray))])]
  | "kde.rows" => some do
    let name ← getStr j "kernel"
    let h ← getRat j "h"
    let grid ← getRats j "grid"
    let seqs ← getRatss j "seqs"
    match kernelFloat name with
    | none => throw s!"unknown kernel {name}"
    | some K =>
      let g := grid.map ratToFloat
      let rows := seqs.map fun s => (Hist.kdeRow K (ratToFloat h) g (s.map ratToFloat)).map fun x => x.toBits.toNat
      pure <| Json.mkObj [("ok", toJson ((rows.map List.toArray).toArray))]
  | _ => none

end Driver.Histogram
