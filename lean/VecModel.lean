import VecModel.Model.Basic
import VecModel.Model.BPE
