-- root of the library: every model, lemma and property file (so that `lake build VecModel` checks all proofs)
import VecModel.Model.Basic
import VecModel.Model.BPE
import VecModel.Model.Sparse
import VecModel.Model.Heap
import VecModel.Model.PyInterp
import VecModel.Lemmas.BPE
import VecModel.Lemmas.Sparse
import VecModel.Lemmas.Heap
import VecModel.Props.C01
import VecModel.Props.C02
import VecModel.Props.C09
import VecModel.Props.C12
import VecModel.Props.C13
import VecModel.Model.Vocab
import VecModel.Lemmas.Vocab
import VecModel.Props.C05
