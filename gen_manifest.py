#!/usr/bin/env python3
"""Regenerates MANIFEST.json from harness/registry.py (claimed properties) — keeps it valid."""
import json, sys
sys.path.insert(0, "/verif")
from harness.registry import CLAIMED, NOT_APPLICABLE, HOOK_COMMITS
checks = []
for pid, info in sorted(CLAIMED.items()):
    checks.append({
        "property_id": pid,
        "quick_cmd": f"./check {pid} --tier quick",
        "thorough_cmd": f"./check {pid} --tier thorough",
        "evidence_file": f"evidence/{pid}.json",
        "replay_cmd_template": f"./check {pid} --replay {{path}}",
        "engine": "lean-proof+correspondence",
        "level_claimed": {"category": "proof", "text": info["text"], "design_ref": info["design_ref"]},
        "level_note": info["note"],
        "technique": info["technique"],
    })
m = {
    "version": 1,
    "setup_cmd": "cd lean && lake build VecModel driver",
    "hooks": {"guard": "VECTORIZERS_VERIF", "enable": "VECTORIZERS_VERIF=1 in the environment of the impl worker processes (no rebuild: pure Python package imported from /repo)",
              "baseline_off_cmd": "cd /repo && /venv/bin/python -m pytest -ra -q -p no:cacheprovider --timeout=900 --continue-on-collection-errors",
              "source_commits": HOOK_COMMITS, "add_only": True},
    "engines": [{"name": "lean-proof+correspondence", "path": "lean/ + harness/",
                 "serves_properties": sorted(CLAIMED),
                 "kind_free_text": "Lean 4 theorems about hand-written executable models (lean/VecModel), tied to /repo on every run by a differential correspondence check (harness/) through the compiled line-protocol driver (lean/Driver), plus the property's own oracle on the implementation for the failing-input search"}],
    "checks": checks,
    "not_applicable": [{"property_id": k, "reason": v} for k, v in sorted(NOT_APPLICABLE.items())],
    "notes": "See DESIGN.md. ./check <id> --tier quick|thorough; exit 0 held, 1 VIOLATION, 2 tool failure/timeout.",
}
json.dump(m, open("/verif/MANIFEST.json", "w"), indent=1)
print("claimed", sorted(CLAIMED), "n/a", sorted(NOT_APPLICABLE))
